//go:build verif

package quic

// Exporters for the C15 glue driver (sglue). Add-only; injected by -overlay.
//
// A VerifGlueConn is a connection created by the REAL constructors newConnection (server),
// newClientConnection (plain client) or newUClientConnection (client driven by a QUICSpec), exactly as
// Transport / UTransport call them (validateConfig + populateConfig first), with an inert sendConn and
// connRunner. Nothing is run: the driver then feeds 1-RTT packet payloads to the real
// Conn.handleShortHeaderPacket (so handleUnpackedShortHeaderPacket / handleFrames / handleFrame /
// handleAckFrame and the real streams map run), the only stand-in being the packet unpacker, which
// returns the payload the driver supplies instead of decrypting.

import (
	"context"
	"errors"
	"net"
	"time"

	"github.com/refraction-networking/uquic/internal/ackhandler"
	"github.com/refraction-networking/uquic/internal/handshake"
	"github.com/refraction-networking/uquic/internal/monotime"
	"github.com/refraction-networking/uquic/internal/protocol"
	"github.com/refraction-networking/uquic/internal/utils"
	"github.com/refraction-networking/uquic/internal/wire"
	"github.com/refraction-networking/uquic/qlogwriter"
	tls "github.com/refraction-networking/utls"
)

type verifGlueSendConn struct{ local, remote net.Addr }

func (verifGlueSendConn) Write([]byte, uint16, protocol.ECN) error { return nil }
func (verifGlueSendConn) WriteTo([]byte, net.Addr) error          { return nil }
func (verifGlueSendConn) Close() error                            { return nil }
func (c verifGlueSendConn) LocalAddr() net.Addr                   { return c.local }
func (c verifGlueSendConn) RemoteAddr() net.Addr                  { return c.remote }
func (verifGlueSendConn) ChangeRemoteAddr(net.Addr, packetInfo)   {}
func (verifGlueSendConn) capabilities() connCapabilities          { return connCapabilities{} }

type verifGlueRunner struct{}

func (verifGlueRunner) Add(protocol.ConnectionID, packetHandler) bool                    { return true }
func (verifGlueRunner) Remove(protocol.ConnectionID)                                     {}
func (verifGlueRunner) ReplaceWithClosed([]protocol.ConnectionID, []byte, time.Duration) {}
func (verifGlueRunner) AddResetToken(protocol.StatelessResetToken, packetHandler)        {}
func (verifGlueRunner) RemoveResetToken(protocol.StatelessResetToken)                    {}

// verifGlueTrace is a qlog trace that discards everything; its only purpose is to make the
// connection a traced one (c.qlogger != nil), which switches handleFrames to "keep parsing" mode.
type verifGlueTrace struct{}
type verifGlueRecorder struct{}

func (verifGlueTrace) AddProducer() qlogwriter.Recorder { return verifGlueRecorder{} }
func (verifGlueTrace) SupportsSchemas(string) bool      { return true }
func (verifGlueRecorder) RecordEvent(qlogwriter.Event)  {}
func (verifGlueRecorder) Close() error                  { return nil }

// verifGlueUnpacker stands in for header/payload protection only.
type verifGlueUnpacker struct {
	pn      protocol.PacketNumber
	payload []byte
}

func (u *verifGlueUnpacker) UnpackLongHeader(*wire.Header, []byte) (*unpackedPacket, error) {
	return nil, errors.New("verif: no long header packets")
}

func (u *verifGlueUnpacker) UnpackShortHeader(monotime.Time, []byte) (protocol.PacketNumber, protocol.PacketNumberLen, protocol.KeyPhaseBit, []byte, error) {
	return u.pn, protocol.PacketNumberLen2, protocol.KeyPhaseZero, u.payload, nil
}

// VerifGluePeerStreams: initial_max_streams_bidi / _uni of the (scripted) peer.
const VerifGluePeerStreams = 3

type VerifGlueConn struct {
	C    *Conn
	unp  *verifGlueUnpacker
	addr *net.UDPAddr
	now  monotime.Time
}

// VerifGlueSpec returns a fresh copy of a built-in QUICSpec whose quic_transport_parameters list
// initial_max_streams_bidi / initial_max_streams_uni with the given values (a negative value: the
// parameter is not listed at all).
func VerifGlueSpec(id QUICID, bidi, uni int64) (*QUICSpec, error) {
	spec, err := QUICID2Spec(id)
	if err != nil {
		return nil, err
	}
	if spec.ClientHelloSpec == nil {
		return nil, errors.New("verif: spec without ClientHelloSpec")
	}
	found := false
	for _, e := range spec.ClientHelloSpec.Extensions {
		ext, ok := e.(*tls.QUICTransportParametersExtension)
		if !ok {
			continue
		}
		found = true
		var out tls.TransportParameters
		for _, p := range ext.TransportParameters {
			switch p.(type) {
			case tls.InitialMaxStreamsBidi, tls.InitialMaxStreamsUni:
				continue
			}
			out = append(out, p)
		}
		if bidi >= 0 {
			out = append(out, tls.InitialMaxStreamsBidi(bidi))
		}
		if uni >= 0 {
			out = append(out, tls.InitialMaxStreamsUni(uni))
		}
		ext.TransportParameters = out
	}
	if !found {
		return nil, errors.New("verif: spec without quic_transport_parameters")
	}
	return &spec, nil
}

// VerifGlueNew creates the connection. kind: "server", "client", "uclient" (spec must be non-nil).
func VerifGlueNew(kind string, conf *Config, spec *QUICSpec, traced bool) (*VerifGlueConn, error) {
	if err := validateConfig(conf); err != nil {
		return nil, err
	}
	conf = populateConfig(conf)
	remote := &net.UDPAddr{IP: net.IPv4(192, 0, 2, 1), Port: 4433}
	sc := verifGlueSendConn{local: &net.UDPAddr{IP: net.IPv4(127, 0, 0, 1), Port: 1234}, remote: remote}
	var trace qlogwriter.Trace
	if traced {
		trace = verifGlueTrace{}
	}
	dest := protocol.ParseConnectionID([]byte{0xde, 0xad, 0xbe, 0xef, 1, 2, 3, 4})
	src := protocol.ParseConnectionID([]byte{9, 8, 7, 6})
	gen := &protocol.DefaultConnectionIDGenerator{ConnLen: src.Len()}
	var c *Conn
	switch kind {
	case "server":
		ctx, cancel := context.WithCancelCause(context.Background())
		w := newConnection(ctx, cancel, sc, verifGlueRunner{}, dest, nil, protocol.ConnectionID{}, dest, src, gen,
			newStatelessResetter(nil), conf, &tls.Config{}, handshake.NewTokenGenerator(handshake.TokenProtectorKey{}),
			false, 10*time.Millisecond, trace, utils.DefaultLogger, protocol.Version1)
		c = w.Conn
	case "client":
		w := newClientConnection(context.Background(), sc, verifGlueRunner{}, dest, src, gen, newStatelessResetter(nil),
			conf, &tls.Config{ServerName: "example.com"}, 0, false, false, trace, utils.DefaultLogger, protocol.Version1)
		c = w.Conn
	case "uclient":
		if spec == nil {
			return nil, errors.New("verif: uclient needs a spec")
		}
		w := newUClientConnection(context.Background(), sc, verifGlueRunner{}, dest, src, gen, newStatelessResetter(nil),
			conf, &tls.Config{ServerName: "example.com"}, 0, false, false, trace, utils.DefaultLogger, protocol.Version1, spec)
		c = w.Conn
	default:
		return nil, errors.New("verif: unknown kind")
	}
	v := &VerifGlueConn{C: c, unp: &verifGlueUnpacker{}, addr: remote, now: monotime.Time(1_000_000_000)}
	c.unpacker = v.unp
	// the peer's transport parameters arrive (real handleTransportParameters; a client applies them at
	// handshake completion): the peer lets us open VerifGluePeerStreams streams of each type
	pp := &wire.TransportParameters{
		InitialSourceConnectionID:      c.handshakeDestConnID,
		InitialMaxData:                 1 << 20,
		InitialMaxStreamDataBidiLocal:  1 << 16,
		InitialMaxStreamDataBidiRemote: 1 << 16,
		InitialMaxStreamDataUni:        1 << 16,
		MaxBidiStreamNum:               VerifGluePeerStreams,
		MaxUniStreamNum:                VerifGluePeerStreams,
		MaxAckDelay:                    25 * time.Millisecond,
		AckDelayExponent:               3,
		ActiveConnectionIDLimit:        2,
		MaxUDPPayloadSize:              1452,
	}
	if c.perspective == protocol.PerspectiveClient {
		pp.OriginalDestinationConnectionID = c.origDestConnID
	}
	if err := c.handleTransportParameters(pp); err != nil {
		return nil, err
	}
	if c.perspective == protocol.PerspectiveClient {
		c.applyTransportParameters()
	}
	// the handshake is over (as connection tests do): 1-RTT frames are then handled without touching TLS
	c.handshakeComplete = true
	c.handshakeConfirmed = true
	return v, nil
}

// Advertised returns initial_max_streams_bidi / _uni of the transport parameters handed to the TLS stack.
func (v *VerifGlueConn) Advertised() (bidi, uni int64, ok bool) {
	tp := handshake.VerifLocalParams(v.C.cryptoStreamHandler)
	if tp == nil {
		return 0, 0, false
	}
	return int64(tp.MaxBidiStreamNum), int64(tp.MaxUniStreamNum), true
}

// Enforced returns the incoming stream limits the connection's streams map was created with.
func (v *VerifGlueConn) Enforced() (bidi, uni int64) {
	m := v.C.streamsMap
	return int64(m.maxIncomingBidiStreams), int64(m.maxIncomingUniStreams)
}

// Traced says whether the connection records qlog events.
func (v *VerifGlueConn) Traced() bool { return v.C.qlogger != nil }

// SendPing registers one ack-eliciting 1-RTT packet as sent and returns its packet number.
func (v *VerifGlueConn) SendPing() int64 {
	pn := v.C.sentPacketHandler.PopPacketNumber(protocol.Encryption1RTT)
	v.now += monotime.Time(time.Millisecond)
	v.C.sentPacketHandler.SentPacket(v.now, pn, protocol.InvalidPacketNumber, nil,
		[]ackhandler.Frame{{Frame: &wire.PingFrame{}}}, protocol.Encryption1RTT, protocol.ECNNon, 50, false, false)
	return int64(pn)
}

// HandlePacket hands one 1-RTT packet with the given packet number and (plaintext) payload to the real
// Conn.handleShortHeaderPacket and returns what the run loop would close the connection with.
func (v *VerifGlueConn) HandlePacket(pn int64, payload []byte) (processed bool, err error) {
	v.unp.pn = protocol.PacketNumber(pn)
	v.unp.payload = payload
	v.now += monotime.Time(time.Millisecond)
	hdr := make([]byte, 1+v.C.srcConnIDLen+2+len(payload)+16)
	hdr[0] = 0x40
	buf := getPacketBuffer()
	p := receivedPacket{buffer: buf, remoteAddr: v.addr, rcvTime: v.now, data: hdr}
	return v.C.handleShortHeaderPacket(p, false, 0)
}

func (v *VerifGlueConn) OpenStream(bidi bool) (int64, error) {
	if bidi {
		s, err := v.C.streamsMap.OpenStream()
		if err != nil {
			return -1, err
		}
		return int64(s.StreamID()), nil
	}
	s, err := v.C.streamsMap.OpenUniStream()
	if err != nil {
		return -1, err
	}
	return int64(s.StreamID()), nil
}

// SmapState is the digest of the streams map (same format as VerifSmap.State).
func (v *VerifGlueConn) SmapState() string { return (&VerifSmap{m: v.C.streamsMap}).State() }

// Shutdown releases what the constructors started (timers, contexts).
func (v *VerifGlueConn) Shutdown() {
	v.C.streamsMap.CloseWithError(errors.New("verif: case finished"))
	if v.C.ctxCancel != nil {
		v.C.ctxCancel(nil)
	}
}
