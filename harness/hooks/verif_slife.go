//go:build verif

package quic

// Exporters for the C15 stream-lifecycle driver (slife). Add-only; injected by -overlay.
//
// A VerifLife wraps a VerifGlueConn (a connection built by the REAL constructors, see verif_sglue.go) and
// lets the driver play BOTH the peer (1-RTT packets with one STREAM / RESET_STREAM / STOP_SENDING /
// MAX_STREAM_DATA frame through the real Conn.handleShortHeaderPacket) and the local application
// (AcceptStream, Read, CancelRead, Write, Close, CancelWrite on the real stream objects), and pops what the
// connection wants to send from the real framer (control frames such as MAX_STREAMS, STREAM frames), so that
// frames can be acknowledged or declared lost through their real ackhandler.FrameHandler.
// Everything between a stream object's "I am done" and the MAX_STREAMS credit is therefore real code:
// ReceiveStream/SendStream.isNewlyCompleted, Stream.checkIfCompleted, Conn.onStreamCompleted,
// streamsMap.DeleteStream, incomingStreamsMap.deleteStream, Conn.queueControlFrame, framer.
//
// Unexported identifiers named here: Stream.completedMutex / sendStreamCompleted (read-only), Conn.framer,
// framer.Append, errDeadline.

import (
	"context"
	"errors"
	"fmt"
	"io"
	"sort"
	"strings"
	"time"

	"github.com/refraction-networking/uquic/internal/ackhandler"
	"github.com/refraction-networking/uquic/internal/protocol"
	"github.com/refraction-networking/uquic/internal/wire"
)

type verifLifeFrame struct {
	desc     string
	frame    wire.Frame
	handler  ackhandler.FrameHandler
	resolved bool
}

type verifLifeStream struct {
	rs *ReceiveStream // incoming unidirectional
	st *Stream        // incoming bidirectional
}

type VerifLife struct {
	V       *VerifGlueConn
	sent    map[int64]int64 // bytes of stream data the (scripted) peer has sent per stream
	streams map[int64]*verifLifeStream
	frames  []*verifLifeFrame
	pn      int64
}

// VerifLifeNew builds the connection. Limits are the incoming stream limits the application configures
// (Config semantics: 0 is conveyed by the driver as a negative value).
func VerifLifeNew(server bool, maxBidi, maxUni int64) (*VerifLife, error) {
	kind := "client"
	if server {
		kind = "server"
	}
	conf := &Config{MaxIncomingStreams: maxBidi, MaxIncomingUniStreams: maxUni}
	v, err := VerifGlueNew(kind, conf, nil, false)
	if err != nil {
		return nil, err
	}
	return &VerifLife{V: v, sent: map[int64]int64{}, streams: map[int64]*verifLifeStream{}}, nil
}

// PeerFrame delivers one 1-RTT packet carrying one frame that names stream id.
//
//	kind "S": STREAM with one byte at the next contiguous offset (fin: with the FIN bit);
//	     "F": STREAM without data at the current offset with the FIN bit (a repeated FIN);
//	     "R": RESET_STREAM whose final size is what was sent so far;
//	     "T": STOP_SENDING; "M": MAX_STREAM_DATA.
func (l *VerifLife) PeerFrame(kind string, id int64, fin bool) error {
	var f wire.Frame
	sid := protocol.StreamID(id)
	off := l.sent[id]
	add := int64(0)
	switch kind {
	case "S":
		f = &wire.StreamFrame{StreamID: sid, Offset: protocol.ByteCount(off), Data: []byte{byte(0x40 + off%26)}, Fin: fin, DataLenPresent: true}
		add = 1
	case "F":
		f = &wire.StreamFrame{StreamID: sid, Offset: protocol.ByteCount(off), Fin: true, DataLenPresent: true}
	case "R":
		f = &wire.ResetStreamFrame{StreamID: sid, ErrorCode: 7, FinalSize: protocol.ByteCount(off)}
	case "T":
		f = &wire.StopSendingFrame{StreamID: sid, ErrorCode: 9}
	case "M":
		f = &wire.MaxStreamDataFrame{StreamID: sid, MaximumStreamData: 1 << 20}
	default:
		return errors.New("verif: unknown frame kind")
	}
	b, err := f.Append(nil, protocol.Version1)
	if err != nil {
		return err
	}
	l.pn++
	_, err = l.V.HandlePacket(l.pn, b)
	if err == nil {
		l.sent[id] = off + add
	}
	return err
}

// Accept is a non-blocking AcceptStream / AcceptUniStream (the context is already cancelled).
func (l *VerifLife) Accept(bidi bool) (int64, error) {
	ctx, cancel := context.WithCancel(context.Background())
	cancel()
	if bidi {
		s, err := l.V.C.AcceptStream(ctx)
		if err != nil {
			return -1, err
		}
		l.streams[int64(s.StreamID())] = &verifLifeStream{st: s}
		return int64(s.StreamID()), nil
	}
	s, err := l.V.C.AcceptUniStream(ctx)
	if err != nil {
		return -1, err
	}
	l.streams[int64(s.StreamID())] = &verifLifeStream{rs: s}
	return int64(s.StreamID()), nil
}

func (l *VerifLife) Has(id int64) bool { return l.streams[id] != nil }

// Read reads until Read returns an error: "end" (io.EOF or a stream error: the application has consumed the
// end of the stream) or "deadline" (it would block: more data or the end is still to come). Must run inside a
// synctest bubble (the deadline is virtual).
func (l *VerifLife) Read(id int64) string {
	s := l.streams[id]
	if s == nil {
		return "skip"
	}
	var rd interface {
		io.Reader
		SetReadDeadline(time.Time) error
	}
	if s.st != nil {
		rd = s.st
	} else {
		rd = s.rs
	}
	rd.SetReadDeadline(time.Now().Add(10 * time.Millisecond))
	defer rd.SetReadDeadline(time.Time{})
	buf := make([]byte, 64)
	for i := 0; i < 1000; i++ {
		_, err := rd.Read(buf)
		if err == nil {
			continue
		}
		var se *StreamError
		switch {
		case errors.Is(err, errDeadline):
			return "deadline"
		case err == io.EOF, errors.As(err, &se):
			return "end"
		}
		return "E:other"
	}
	return "E:loop"
}

func (l *VerifLife) CancelRead(id int64) string {
	s := l.streams[id]
	switch {
	case s == nil:
		return "skip"
	case s.st != nil:
		s.st.CancelRead(5)
	default:
		s.rs.CancelRead(5)
	}
	return "ok"
}

// Write writes one byte on the send half of an accepted bidirectional stream.
func (l *VerifLife) Write(id int64) string {
	s := l.streams[id]
	if s == nil || s.st == nil {
		return "skip"
	}
	if _, err := s.st.Write([]byte{0x77}); err != nil {
		return "err"
	}
	return "ok"
}

func (l *VerifLife) CloseSend(id int64) string {
	s := l.streams[id]
	if s == nil || s.st == nil {
		return "skip"
	}
	if err := s.st.Close(); err != nil {
		return "err"
	}
	return "ok"
}

func (l *VerifLife) CancelWrite(id int64) string {
	s := l.streams[id]
	if s == nil || s.st == nil {
		return "skip"
	}
	s.st.CancelWrite(6)
	return "ok"
}

func tLetter(t protocol.StreamType) string {
	if t == protocol.StreamTypeBidi {
		return "b"
	}
	return "u"
}

// Flush pops everything the connection wants to send from the real framer. It returns the MAX_STREAMS /
// STREAMS_BLOCKED frames (canonical text) and the descriptions of all newly popped frames with their index
// (for Ack / Lose).
func (l *VerifLife) Flush() (credit []string, all []string) {
	for round := 0; round < 64; round++ {
		l.V.now += 1000
		frames, sframes, _ := l.V.C.framer.Append(nil, nil, 1200, l.V.now, protocol.Version1)
		if len(frames) == 0 && len(sframes) == 0 {
			break
		}
		for _, f := range frames {
			var desc string
			switch x := f.Frame.(type) {
			case *wire.MaxStreamsFrame:
				desc = fmt.Sprintf("MS:%s:%d", tLetter(x.Type), x.MaxStreamNum)
				credit = append(credit, desc)
			case *wire.StreamsBlockedFrame:
				desc = fmt.Sprintf("SB:%s:%d", tLetter(x.Type), x.StreamLimit)
				credit = append(credit, desc)
			case *wire.StopSendingFrame:
				desc = fmt.Sprintf("STOP:%d", x.StreamID)
			case *wire.ResetStreamFrame:
				desc = fmt.Sprintf("RST:%d", x.StreamID)
			case *wire.MaxStreamDataFrame:
				desc = fmt.Sprintf("MSD:%d", x.StreamID)
			default:
				desc = "CF"
			}
			l.frames = append(l.frames, &verifLifeFrame{desc: desc, frame: f.Frame, handler: f.Handler})
			all = append(all, fmt.Sprintf("%d=%s", len(l.frames)-1, desc))
		}
		for _, sf := range sframes {
			fin := 0
			if sf.Frame.Fin {
				fin = 1
			}
			desc := fmt.Sprintf("SF:%d:%d:%d:%d", sf.Frame.StreamID, sf.Frame.Offset, sf.Frame.DataLen(), fin)
			l.frames = append(l.frames, &verifLifeFrame{desc: desc, frame: sf.Frame, handler: sf.Handler})
			all = append(all, fmt.Sprintf("%d=%s", len(l.frames)-1, desc))
		}
	}
	sort.Strings(credit)
	return credit, all
}

// Resolve acknowledges (lost=false) or declares lost (lost=true) the i-th popped frame through the real handler.
func (l *VerifLife) Resolve(i int, lost bool) string {
	if i < 0 || i >= len(l.frames) {
		return "skip"
	}
	f := l.frames[i]
	if f.resolved || f.handler == nil {
		return "skip"
	}
	f.resolved = true
	if lost {
		f.handler.OnLost(f.frame)
	} else {
		f.handler.OnAcked(f.frame)
	}
	return "ok"
}

// Pending lists the indices of popped frames that have a handler and are not resolved yet.
func (l *VerifLife) Pending() []int {
	var out []int
	for i, f := range l.frames {
		if !f.resolved && f.handler != nil {
			out = append(out, i)
		}
	}
	return out
}

// SendDone lists the accepted bidirectional streams whose SEND half has reported completion (read-only).
func (l *VerifLife) SendDone() string {
	var ids []int64
	for id, s := range l.streams {
		if s.st == nil {
			continue
		}
		s.st.completedMutex.Lock()
		done := s.st.sendStreamCompleted
		s.st.completedMutex.Unlock()
		if done {
			ids = append(ids, id)
		}
	}
	sort.Slice(ids, func(i, j int) bool { return ids[i] < ids[j] })
	var parts []string
	for _, id := range ids {
		parts = append(parts, fmt.Sprint(id))
	}
	return strings.Join(parts, ",")
}

func (l *VerifLife) State() string { return l.V.SmapState() }

func (l *VerifLife) Shutdown() { l.V.Shutdown() }
