//go:build verif

package quic

// Exporter facade for the verification harness (property C15). Add-only; injected by -overlay.
// It builds the real streamsMap (real newStream / newSendStream / newReceiveStream constructors,
// as hard-wired in initMaps) with an inert stream sender and an inert flow controller, so that
// only the map logic is observable.

import (
	"context"
	"fmt"

	"github.com/refraction-networking/uquic/internal/flowcontrol"
	"github.com/refraction-networking/uquic/internal/monotime"
	"github.com/refraction-networking/uquic/internal/protocol"
	"github.com/refraction-networking/uquic/internal/wire"
)

type verifNopSender struct{}

func (verifNopSender) onHasConnectionData()                                                  {}
func (verifNopSender) onHasStreamData(protocol.StreamID, *SendStream)                        {}
func (verifNopSender) onHasStreamControlFrame(protocol.StreamID, streamControlFrameGetter) {}
func (verifNopSender) onStreamCompleted(protocol.StreamID)                                   {}

type verifNopFC struct{}

func (verifNopFC) SendWindowSize() protocol.ByteCount                       { return 1 << 20 }
func (verifNopFC) UpdateSendWindow(protocol.ByteCount) bool                 { return false }
func (verifNopFC) AddBytesSent(protocol.ByteCount)                          {}
func (verifNopFC) GetWindowUpdate(monotime.Time) protocol.ByteCount         { return 0 }
func (verifNopFC) AddBytesRead(protocol.ByteCount) (bool, bool)             { return false, false }
func (verifNopFC) UpdateHighestReceived(protocol.ByteCount, bool, monotime.Time) error { return nil }
func (verifNopFC) Abandon()                                                 {}
func (verifNopFC) IsNewlyBlocked() bool                                     { return false }

// VerifSmap wraps a *streamsMap.
type VerifSmap struct{ m *streamsMap }

// VerifMaxStreamsCreated bounds the number of streams one wrapped map may ever create. The harness
// never asks for more than a few per operation; the cap only stops a modified limit check from
// allocating 2^60 streams (the panic surfaces as the operation's outcome).
const VerifMaxStreamsCreated = 20000

func VerifNewStreamsMap(pers protocol.Perspective, maxBidi, maxUni uint64, queue func(wire.Frame)) *VerifSmap {
	created := 0
	return &VerifSmap{m: newStreamsMap(
		context.Background(),
		verifNopSender{},
		queue,
		func(id protocol.StreamID) flowcontrol.StreamFlowController {
			created++ // always called with the owning sub-map's mutex held, or from the harness goroutine
			if created > VerifMaxStreamsCreated {
				panic(fmt.Sprintf("verif: more than %d streams created (stream %d)", VerifMaxStreamsCreated, id))
			}
			return verifNopFC{}
		},
		maxBidi, maxUni, pers,
	)}
}

func (v *VerifSmap) OpenStream(bidi bool) (int64, error) {
	if bidi {
		s, err := v.m.OpenStream()
		if err != nil {
			return -1, err
		}
		return int64(s.StreamID()), nil
	}
	s, err := v.m.OpenUniStream()
	if err != nil {
		return -1, err
	}
	return int64(s.StreamID()), nil
}

func (v *VerifSmap) OpenStreamSync(ctx context.Context, bidi bool) (int64, error) {
	if bidi {
		s, err := v.m.OpenStreamSync(ctx)
		if err != nil {
			return -1, err
		}
		return int64(s.StreamID()), nil
	}
	s, err := v.m.OpenUniStreamSync(ctx)
	if err != nil {
		return -1, err
	}
	return int64(s.StreamID()), nil
}

func (v *VerifSmap) AcceptStream(ctx context.Context, bidi bool) (int64, error) {
	if bidi {
		s, err := v.m.AcceptStream(ctx)
		if err != nil {
			return -1, err
		}
		return int64(s.StreamID()), nil
	}
	s, err := v.m.AcceptUniStream(ctx)
	if err != nil {
		return -1, err
	}
	return int64(s.StreamID()), nil
}

func (v *VerifSmap) DeleteStream(id int64) error { return v.m.DeleteStream(protocol.StreamID(id)) }

func (v *VerifSmap) HandleMaxStreamsFrame(f *wire.MaxStreamsFrame) { v.m.HandleMaxStreamsFrame(f) }

func (v *VerifSmap) HandleTransportParameters(nb, nu int64) {
	v.m.HandleTransportParameters(&wire.TransportParameters{
		MaxBidiStreamNum: protocol.StreamNum(nb),
		MaxUniStreamNum:  protocol.StreamNum(nu),
	})
}

// HandleFrame delivers an (empty) frame of the given kind naming stream id.
func (v *VerifSmap) HandleFrame(kind string, id int64) error {
	sid := protocol.StreamID(id)
	switch kind {
	case "stream":
		return v.m.HandleStreamFrame(&wire.StreamFrame{StreamID: sid}, monotime.Time(1))
	case "rst":
		return v.m.HandleResetStreamFrame(&wire.ResetStreamFrame{StreamID: sid}, monotime.Time(1))
	case "sdb":
		return v.m.HandleStreamDataBlockedFrame(&wire.StreamDataBlockedFrame{StreamID: sid})
	case "stop":
		return v.m.HandleStopSendingFrame(&wire.StopSendingFrame{StreamID: sid})
	case "msd":
		return v.m.HandleMaxStreamDataFrame(&wire.MaxStreamDataFrame{StreamID: sid, MaximumStreamData: 1})
	}
	return fmt.Errorf("verif: unknown frame kind %q", kind)
}

func (v *VerifSmap) CloseWithError(err error) { v.m.CloseWithError(err) }
func (v *VerifSmap) ResetFor0RTT()            { v.m.ResetFor0RTT() }
func (v *VerifSmap) UseResetMaps()            { v.m.UseResetMaps() }

func verifInState[T incomingStream](m *incomingStreamsMap[T]) string {
	m.mutex.RLock()
	defer m.mutex.RUnlock()
	sd := 0
	for _, e := range m.streams {
		if e.shouldDelete {
			sd++
		}
	}
	return fmt.Sprintf("%d,%d,%d,%d,%d", m.nextStreamToAccept, m.nextStreamToOpen, m.maxStream, len(m.streams), sd)
}

func verifOutState[T outgoingStream](m *outgoingStreamsMap[T]) string {
	m.mutex.RLock()
	defer m.mutex.RUnlock()
	b := 0
	if m.blockedSent {
		b = 1
	}
	return fmt.Sprintf("%d,%d,%d,%d,%d", m.nextStream, m.maxStream, b, len(m.openQueue), len(m.streams))
}

// State is a read-only digest of the four current sub-maps (taken at quiescence).
func (v *VerifSmap) State() string {
	v.m.mutex.Lock()
	rs := 0
	if v.m.reset {
		rs = 1
	}
	ob, ou, ib, iu := v.m.outgoingBidiStreams, v.m.outgoingUniStreams, v.m.incomingBidiStreams, v.m.incomingUniStreams
	v.m.mutex.Unlock()
	return fmt.Sprintf("ob=%s ou=%s ib=%s iu=%s rs=%d", verifOutState(ob), verifOutState(ou), verifInState(ib), verifInState(iu), rs)
}

// VerifForceUnlock releases the sub-maps' mutexes if a panic inside a map method left one held
// (GetOrOpenStream does not defer its Unlock). Only used by the harness when it tears a case down,
// so that goroutines queued on such a mutex can finish.
func (v *VerifSmap) VerifForceUnlock() {
	v.m.mutex.TryLock()
	ib, iu := v.m.incomingBidiStreams, v.m.incomingUniStreams
	v.m.mutex.Unlock()
	ib.mutex.TryLock()
	ib.mutex.Unlock()
	iu.mutex.TryLock()
	iu.mutex.Unlock()
}
