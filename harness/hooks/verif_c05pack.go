//go:build verif

package quic

import (
	"github.com/refraction-networking/uquic/internal/ackhandler"
	"github.com/refraction-networking/uquic/internal/handshake"
	"github.com/refraction-networking/uquic/internal/monotime"
	"github.com/refraction-networking/uquic/internal/protocol"
	"github.com/refraction-networking/uquic/internal/qerr"
	"github.com/refraction-networking/uquic/internal/utils"
	"github.com/refraction-networking/uquic/internal/wire"
)

// C05 (round 5): every path of the REAL packer that can put a 1-RTT packet on the wire — the eight methods
// of the `packer` interface, on a packetPacker and on the uPacketPacker that wraps it — fed by stub frame
// sources and sealing with the sealers the driver hands in (a real updatableAEAD for 1-RTT).
// Add-only; names the unexported constructors newPacketPacker / newUPacketPacker, the packer interface and
// the fields of shortHeaderPacket / coalescedPacket it reads.

type verifKPSealing struct {
	initial, hs handshake.LongHeaderSealer
	oneRTT      handshake.ShortHeaderSealer
	useInitial  bool
	useHS       bool
}

func (s *verifKPSealing) GetInitialSealer() (handshake.LongHeaderSealer, error) {
	if !s.useInitial || s.initial == nil {
		return nil, handshake.ErrKeysDropped
	}
	return s.initial, nil
}

func (s *verifKPSealing) GetHandshakeSealer() (handshake.LongHeaderSealer, error) {
	if !s.useHS || s.hs == nil {
		return nil, handshake.ErrKeysDropped
	}
	return s.hs, nil
}

func (s *verifKPSealing) Get0RTTSealer() (handshake.LongHeaderSealer, error) {
	return nil, handshake.ErrKeysDropped
}

func (s *verifKPSealing) Get1RTTSealer() (handshake.ShortHeaderSealer, error) {
	if s.oneRTT == nil {
		return nil, handshake.ErrKeysNotYetAvailable
	}
	return s.oneRTT, nil
}

type verifKPPN struct {
	long   [3]protocol.PacketNumber
	pn     protocol.PacketNumber
	pnLen  protocol.PacketNumberLen
	popped int
}

func verifKPLevel(l protocol.EncryptionLevel) int {
	switch l {
	case protocol.EncryptionInitial:
		return 0
	case protocol.EncryptionHandshake:
		return 1
	}
	return 2
}

func (m *verifKPPN) PeekPacketNumber(l protocol.EncryptionLevel) (protocol.PacketNumber, protocol.PacketNumberLen) {
	if l == protocol.Encryption1RTT {
		return m.pn, m.pnLen
	}
	return m.long[verifKPLevel(l)], protocol.PacketNumberLen2
}

func (m *verifKPPN) PopPacketNumber(l protocol.EncryptionLevel) protocol.PacketNumber {
	if l == protocol.Encryption1RTT {
		m.popped++
		return m.pn
	}
	k := verifKPLevel(l)
	m.long[k]++
	return m.long[k] - 1
}

type verifKPFramer struct{ queued []wire.Frame }

func (f *verifKPFramer) HasData() bool { return len(f.queued) > 0 }
func (f *verifKPFramer) Append(frames []ackhandler.Frame, sf []ackhandler.StreamFrame, maxLen protocol.ByteCount, _ monotime.Time, v protocol.Version) ([]ackhandler.Frame, []ackhandler.StreamFrame, protocol.ByteCount) {
	var added protocol.ByteCount
	for len(f.queued) > 0 {
		l := f.queued[0].Length(v)
		if added+l > maxLen {
			break
		}
		frames = append(frames, ackhandler.Frame{Frame: f.queued[0]})
		added += l
		f.queued = f.queued[1:]
	}
	return frames, sf, added
}

type verifKPAcks struct{ ack *wire.AckFrame }

func (a *verifKPAcks) GetAckFrame(l protocol.EncryptionLevel, _ monotime.Time, _ bool) *wire.AckFrame {
	if l != protocol.Encryption1RTT {
		return nil
	}
	f := a.ack
	a.ack = nil
	return f
}

// VerifKPPacker is one endpoint's packer pair (plain and uQUIC) over shared stub sources.
type VerifKPPacker struct {
	plain   *packetPacker
	u       *uPacketPacker
	sealing *verifKPSealing
	pn      *verifKPPN
	framer  *verifKPFramer
	acks    *verifKPAcks
	hs      *cryptoStream
	dest    protocol.ConnectionID
}

// VerifNewKPPacker builds the packers. initial / hs may be nil (keys dropped).
func VerifNewKPPacker(oneRTT handshake.ShortHeaderSealer, initial, hs handshake.LongHeaderSealer, destConnID []byte, client bool) *VerifKPPacker {
	k := &VerifKPPacker{
		sealing: &verifKPSealing{initial: initial, hs: hs, oneRTT: oneRTT},
		pn:      &verifKPPN{pnLen: protocol.PacketNumberLen4},
		framer:  &verifKPFramer{},
		acks:    &verifKPAcks{},
		hs:      newCryptoStream(),
		dest:    protocol.ParseConnectionID(destConnID),
	}
	pers := protocol.PerspectiveServer
	if client {
		pers = protocol.PerspectiveClient
	}
	k.plain = newPacketPacker(protocol.ParseConnectionID([]byte{9, 8, 7, 6}), func() protocol.ConnectionID { return k.dest },
		newInitialCryptoStream(client), k.hs, k.pn, newRetransmissionQueue(), k.sealing, k.framer, k.acks,
		newDatagramQueue(func() {}, utils.DefaultLogger), pers)
	k.u = newUPacketPacker(k.plain, &QUICSpec{})
	return k
}

// VerifKPIn selects a path and what the sources hold.
type VerifKPIn struct {
	Path   string // append ackonly coal pto mtu path cclose aclose
	UQUIC  bool   // through the uPacketPacker
	PN     int64
	PNLen  int
	Data   bool // a control frame is queued in the framer
	Ack    bool // an ACK frame is queued for the application-data space
	Flag   bool // coal: onlyAck; pto: addPingIfEmpty
	Long   int  // 0: only 1-RTT keys; 1: Handshake keys too; 2: Initial and Handshake keys too (close paths)
	HSData bool // CRYPTO data waits at the Handshake level (coal)
	V2     bool
}

// VerifKPOut is the 1-RTT packet the path produced (Produced=false: none).
type VerifKPOut struct {
	Produced bool
	KeyPhase int // shortHeaderPacket.KeyPhase as the packer reports it
	PN       int64
	PNLen    int
	Raw      []byte // the protected 1-RTT packet
	NumLong  int    // long header packets coalesced in front of it
	Err      string // "" or an unexpected error
	Popped   int    // PopPacketNumber calls at the 1-RTT level
}

// VerifPoisonPacketBuffers leaves dirty packet buffers in the pool: the next getPacketBuffer() calls of this
// goroutine find every byte of the backing array set to 0xa5 (pool hygiene: a packer must write every byte it
// sends, padding included).
func VerifPoisonPacketBuffers() {
	bufs := make([]*packetBuffer, 0, 3)
	for i := 0; i < 3; i++ {
		b := getPacketBuffer()
		d := b.Data[:cap(b.Data)]
		for j := range d {
			d[j] = 0xa5
		}
		bufs = append(bufs, b)
	}
	for _, b := range bufs {
		b.Release()
	}
}

func (k *VerifKPPacker) Pack(in VerifKPIn) (out VerifKPOut) {
	VerifPoisonPacketBuffers()
	v := protocol.Version1
	if in.V2 {
		v = protocol.Version2
	}
	var pk packer = k.plain
	if in.UQUIC {
		pk = k.u
	}
	closing := in.Path == "cclose" || in.Path == "aclose"
	k.sealing.useHS = in.Long >= 1
	k.sealing.useInitial = in.Long >= 2 && closing
	k.pn.pn, k.pn.pnLen, k.pn.popped = protocol.PacketNumber(in.PN), protocol.PacketNumberLen(in.PNLen), 0
	k.framer.queued = nil
	if in.Data {
		k.framer.queued = []wire.Frame{&wire.MaxDataFrame{MaximumData: protocol.ByteCount(1000 + in.PN)}}
	}
	k.acks.ack = nil
	if in.Ack {
		k.acks.ack = &wire.AckFrame{AckRanges: []wire.AckRange{{Smallest: 0, Largest: protocol.PacketNumber(in.PN % 7)}}}
	}
	if in.HSData && in.Long >= 1 && in.Path == "coal" && !k.hs.HasData() {
		_, _ = k.hs.Write([]byte("verif handshake bytes"))
	}
	const maxSize = protocol.ByteCount(1200)
	now := monotime.Now()

	fromShort := func(shp shortHeaderPacket, buf *packetBuffer, err error) {
		if err != nil {
			if err != errNothingToPack {
				out.Err = err.Error()
			}
			return
		}
		out.Produced = true
		out.KeyPhase = 0
		if shp.KeyPhase == protocol.KeyPhaseOne {
			out.KeyPhase = 1
		}
		out.PN, out.PNLen = int64(shp.PacketNumber), int(shp.PacketNumberLen)
		n := len(buf.Data)
		out.Raw = append([]byte{}, buf.Data[n-int(shp.Length):]...)
	}
	fromCoalesced := func(p *coalescedPacket, err error) {
		if err != nil {
			out.Err = err.Error()
			return
		}
		if p == nil {
			return
		}
		out.NumLong = len(p.longHdrPackets)
		if p.shortHdrPacket != nil {
			fromShort(*p.shortHdrPacket, p.buffer, nil)
		}
		p.buffer.Release()
	}

	switch in.Path {
	case "append":
		buf := getPacketBuffer()
		shp, err := pk.AppendPacket(buf, maxSize, now, v)
		fromShort(shp, buf, err)
		buf.Release()
	case "ackonly":
		shp, buf, err := pk.PackAckOnlyPacket(maxSize, now, v)
		fromShort(shp, buf, err)
		if buf != nil {
			buf.Release()
		}
	case "coal":
		fromCoalesced(pk.PackCoalescedPacket(in.Flag, maxSize, now, v))
	case "pto":
		fromCoalesced(pk.PackPTOProbePacket(protocol.Encryption1RTT, maxSize, in.Flag, now, v))
	case "mtu":
		shp, buf, err := pk.PackMTUProbePacket(ackhandler.Frame{Frame: &wire.PingFrame{}}, 1300, v)
		fromShort(shp, buf, err)
		if buf != nil {
			buf.Release()
		}
	case "path":
		var d [8]byte
		for i := range d {
			d[i] = byte(in.PN) + byte(i)
		}
		shp, buf, err := pk.PackPathProbePacket(k.dest, []ackhandler.Frame{{Frame: &wire.PathChallengeFrame{Data: d}}}, v)
		fromShort(shp, buf, err)
		if buf != nil {
			buf.Release()
		}
	case "cclose":
		fromCoalesced(pk.PackConnectionClose(&qerr.TransportError{ErrorCode: qerr.ProtocolViolation, ErrorMessage: "verif"}, maxSize, v))
	case "aclose":
		fromCoalesced(pk.PackApplicationClose(&qerr.ApplicationError{ErrorCode: 7, ErrorMessage: "bye"}, maxSize, v))
	default:
		out.Err = "bad path"
	}
	out.Popped = k.pn.popped
	return out
}
