//go:build verif

package quic

import (
	"net"
	"time"

	"github.com/refraction-networking/uquic/internal/handshake"
)

// VerifAmpValidateToken calls baseServer.validateToken on a server that has only the fields the
// function reads (C14).
func VerifAmpValidateToken(tok *handshake.Token, addr net.Addr, maxTokenAge, handshakeIdleTimeout time.Duration) bool {
	s := &baseServer{maxTokenAge: maxTokenAge, config: &Config{HandshakeIdleTimeout: handshakeIdleTimeout}}
	return s.validateToken(tok, addr)
}
