//go:build verif

package quic

// Exporters for the C16 receive-glue driver (cidrx). Add-only; injected by -overlay. Needs verif_cid.go (verifConn,
// verifIDGen).
//
// A VerifRx is ONE real Transport (only what Transport.init sets up for routing: the handler map, the reset-token
// map, the queues, connIDLen - no socket, no goroutine) and ONE real connection built by the real constructor
// (newClientConnection / newUClientConnection / newConnection) with that transport's packetHandlerMap as its
// connRunner, registered the way Transport.doDial resp. baseServer.handleInitialImpl register it. Nothing is run:
// the driver plays the run loop. A datagram takes the REAL way from the socket to the packet unpacker:
//
//	Transport.handlePacket   (which connection ID the datagram is routed by; handler lookup)
//	Conn.handlePacket        (receive queue)
//	Conn.handlePackets -> Conn.handleOnePacket -> handleLongHeaderPacket / handleShortHeaderPacket
//
// The only stand-in is the packet unpacker (header / payload protection): it records every packet the connection
// asks it to open - the packets that REACHED the connection - and answers with a PING frame.
// The connection's own connIDGenerator (real) issues / retires / expires connection IDs in the real handler map.

import (
	"context"
	"errors"
	"net"
	"sort"
	"time"

	"github.com/refraction-networking/uquic/internal/handshake"
	"github.com/refraction-networking/uquic/internal/monotime"
	"github.com/refraction-networking/uquic/internal/protocol"
	"github.com/refraction-networking/uquic/internal/utils"
	"github.com/refraction-networking/uquic/internal/wire"
	tls "github.com/refraction-networking/utls"
)

// VerifRxSeen is one packet handed to the unpacker.
type VerifRxSeen struct {
	Long bool
	Type int    // long header: 0 Initial, 1 0-RTT, 2 Handshake
	DCID []byte // long header: the header's destination connection ID; short header: the srcConnIDLen bytes after the first byte
}

type verifRxUnpacker struct {
	idLen int
	seen  []VerifRxSeen
	pn    map[protocol.EncryptionLevel]protocol.PacketNumber
	// have the Initial keys been dropped (a server does so with the first Handshake packet)?
	initialDropped func() bool
}

func (u *verifRxUnpacker) next(l protocol.EncryptionLevel) protocol.PacketNumber {
	pn := u.pn[l]
	u.pn[l] = pn + 1
	return pn
}

func (u *verifRxUnpacker) UnpackLongHeader(hdr *wire.Header, data []byte) (*unpackedPacket, error) {
	var typ int
	var lvl protocol.EncryptionLevel
	switch hdr.Type {
	case protocol.PacketTypeInitial:
		typ, lvl = 0, protocol.EncryptionInitial
	case protocol.PacketType0RTT:
		typ, lvl = 1, protocol.Encryption0RTT
	case protocol.PacketTypeHandshake:
		typ, lvl = 2, protocol.EncryptionHandshake
	default:
		return nil, errors.New("verif: unexpected long header packet type")
	}
	u.seen = append(u.seen, VerifRxSeen{Long: true, Type: typ, DCID: append([]byte{}, hdr.DestConnectionID.Bytes()...)})
	if lvl == protocol.EncryptionInitial && u.initialDropped != nil && u.initialDropped() {
		return nil, handshake.ErrKeysDropped // what the real unpacker answers once the Initial keys are gone
	}
	if lvl == protocol.Encryption0RTT {
		return nil, handshake.ErrKeysDropped // a server that does not accept 0-RTT (the connection was not set up for it)
	}
	return &unpackedPacket{
		hdr:             &wire.ExtendedHeader{Header: *hdr, PacketNumber: u.next(lvl), PacketNumberLen: protocol.PacketNumberLen1},
		encryptionLevel: lvl,
		data:            []byte{1}, // PING
	}, nil
}

func (u *verifRxUnpacker) UnpackShortHeader(_ monotime.Time, data []byte) (protocol.PacketNumber, protocol.PacketNumberLen, protocol.KeyPhaseBit, []byte, error) {
	var id []byte
	if len(data) >= 1+u.idLen {
		id = append([]byte{}, data[1:1+u.idLen]...)
	}
	u.seen = append(u.seen, VerifRxSeen{DCID: id})
	return u.next(protocol.Encryption1RTT), protocol.PacketNumberLen1, protocol.KeyPhaseZero, []byte{1}, nil
}

type VerifRx struct {
	T     *Transport
	C     *Conn
	conn2 *verifConn
	unp   *verifRxUnpacker
	gen   *verifIDGen
	addr  *net.UDPAddr
}

// VerifRxNew: kind = "client" | "uclient" | "server"; idLen = length of the connection IDs of this endpoint (the
// transport's connIDLen); initial = the connection's first own connection ID; dest = the peer's connection ID the
// connection starts with (client: the random destination connection ID, which a server ALSO routes to the connection
// until the handshake is done); mk = the application's ConnectionIDGenerator.
func VerifRxNew(kind string, idLen int, initial, dest []byte, mk func(k, l int) []byte) (*VerifRx, error) {
	t := &Transport{
		handlers:            make(map[protocol.ConnectionID]packetHandler),
		resetTokens:         make(map[protocol.StatelessResetToken]packetHandler),
		closeQueue:          make(chan closePacket, 4),
		statelessResetQueue: make(chan receivedPacket, 4),
		logger:              utils.DefaultLogger,
		connIDLen:           idLen,
	}
	conf := populateConfig(&Config{DisablePathMTUDiscovery: true})
	remote := &net.UDPAddr{IP: net.IPv4(192, 0, 2, 1), Port: 4433}
	sc := verifGlueSendConnRx{local: &net.UDPAddr{IP: net.IPv4(127, 0, 0, 1), Port: 1234}, remote: remote}
	src := protocol.ParseConnectionID(initial)
	dst := protocol.ParseConnectionID(dest)
	gen := &verifIDGen{len: idLen, mk: mk}
	runner := (*packetHandlerMap)(t)
	var w *wrappedConn
	switch kind {
	case "client":
		w = newClientConnection(context.Background(), sc, runner, dst, src, gen, newStatelessResetter(nil),
			conf, &tls.Config{ServerName: "example.com"}, 0, false, false, nil, utils.DefaultLogger, protocol.Version1)
	case "uclient":
		spec, err := QUICID2Spec(QUICFirefox_116)
		if err != nil {
			return nil, err
		}
		w = newUClientConnection(context.Background(), sc, runner, dst, src, gen, newStatelessResetter(nil),
			conf, &tls.Config{ServerName: "example.com"}, 0, false, false, nil, utils.DefaultLogger, protocol.Version1, &spec)
	case "server":
		ctx, cancel := context.WithCancelCause(context.Background())
		// origDestConnID = clientDestConnID = dest (no Retry); destConnID (the client's source connection ID) is fixed
		w = newConnection(ctx, cancel, sc, runner, dst, nil, dst, protocol.ParseConnectionID([]byte{0xc1, 0xc1, 0xc1, 0xc1}), src, gen,
			newStatelessResetter(nil), conf, &tls.Config{}, handshake.NewTokenGenerator(handshake.TokenProtectorKey{}),
			false, 10*time.Millisecond, nil, utils.DefaultLogger, protocol.Version1)
	default:
		return nil, errors.New("verif: unknown kind")
	}
	v := &VerifRx{T: t, C: w.Conn, conn2: &verifConn{}, unp: &verifRxUnpacker{idLen: idLen, pn: map[protocol.EncryptionLevel]protocol.PacketNumber{}}, gen: gen, addr: remote}
	v.C.unpacker = v.unp
	v.unp.initialDropped = func() bool { return v.C.droppedInitialKeys }
	if kind == "server" {
		// baseServer.handleInitialImpl: tr.AddWithConnID(hdr.DestConnectionID, connID, conn)
		if !runner.AddWithConnID(dst, src, w) {
			return nil, errors.New("verif: AddWithConnID refused")
		}
	} else {
		// Transport.doDial / UTransport.doDial: t.handlers[srcConnID] = conn (the real doDial is driven end to end by cide2e)
		t.mutex.Lock()
		t.handlers[src] = w
		t.mutex.Unlock()
	}
	return v, nil
}

type verifGlueSendConnRx struct{ local, remote net.Addr }

func (verifGlueSendConnRx) Write([]byte, uint16, protocol.ECN) error { return nil }
func (verifGlueSendConnRx) WriteTo([]byte, net.Addr) error          { return nil }
func (verifGlueSendConnRx) Close() error                            { return nil }
func (c verifGlueSendConnRx) LocalAddr() net.Addr                   { return c.local }
func (c verifGlueSendConnRx) RemoteAddr() net.Addr                  { return c.remote }
func (verifGlueSendConnRx) ChangeRemoteAddr(net.Addr, packetInfo)   {}
func (verifGlueSendConnRx) capabilities() connCapabilities          { return connCapabilities{} }

func (v *VerifRx) Close() {
	v.C.cryptoStreamHandler.Close()
	v.C.ctxCancel(nil)
}

// AddForeign registers another connection for this connection ID (Add refuses an ID that is routed already).
func (v *VerifRx) AddForeign(id []byte) bool {
	return (*packetHandlerMap)(v.T).Add(protocol.ParseConnectionID(id), v.conn2)
}

func (v *VerifRx) SetMaxActiveConnIDs(limit uint64) error {
	return v.C.connIDGenerator.SetMaxActiveConnIDs(limit)
}
func (v *VerifRx) Retire(seq uint64, sentWithDest []byte, expiry int64) error {
	return v.C.connIDGenerator.Retire(seq, protocol.ParseConnectionID(sentWithDest), monotime.Time(expiry))
}
func (v *VerifRx) SetHandshakeComplete(expiry int64) {
	v.C.connIDGenerator.SetHandshakeComplete(monotime.Time(expiry))
}
func (v *VerifRx) RemoveRetiredConnIDs(now int64) {
	v.C.connIDGenerator.RemoveRetiredConnIDs(monotime.Time(now))
}
func (v *VerifRx) RemoveAll() { v.C.connIDGenerator.RemoveAll() }

// Routes lists the transport's routing table: connection IDs (sorted) with the kind of their handler
// ("conn" = the connection under study, "conn2" = the foreign connection).
func (v *VerifRx) Routes() (ids [][]byte, kinds []string) {
	v.T.mutex.Lock()
	defer v.T.mutex.Unlock()
	type ent struct {
		id   []byte
		kind string
	}
	var l []ent
	for id, hd := range v.T.handlers {
		k := "other"
		switch x := hd.(type) {
		case *wrappedConn:
			if x.Conn == v.C {
				k = "conn"
			}
		case *Conn:
			if x == v.C {
				k = "conn"
			}
		case *verifConn:
			k = "conn2"
		case *closedLocalConn:
			k = "local"
		case *closedRemoteConn:
			k = "remote"
		}
		l = append(l, ent{append([]byte{}, id.Bytes()...), k})
	}
	sort.Slice(l, func(i, j int) bool { return string(l[i].id) < string(l[j].id) })
	for _, e := range l {
		ids = append(ids, e.id)
		kinds = append(kinds, e.kind)
	}
	return
}

// Datagram: one UDP datagram arrives at the transport's socket at time now. to = who the transport handed it to
// ("conn", "conn2", "none"); seen = the packets of it the connection asked the unpacker to open, in order;
// err = the error the run loop would have closed the connection with.
func (v *VerifRx) Datagram(b []byte, now int64) (to string, seen []VerifRxSeen, err error) {
	buf := getPacketBuffer()
	buf.Data = buf.Data[:len(b)]
	copy(buf.Data, b)
	p := receivedPacket{buffer: buf, remoteAddr: v.addr, rcvTime: monotime.Time(now), data: buf.Data}
	before2 := v.conn2.delivered
	v.unp.seen = nil
	v.T.handlePacket(p)
	to = "none"
	if v.conn2.delivered != before2 {
		to = "conn2"
	}
	v.C.receivedPacketMx.Lock()
	queued := !v.C.receivedPackets.Empty()
	v.C.receivedPacketMx.Unlock()
	if queued {
		to = "conn"
	}
	for i := 0; i < 8 && queued; i++ {
		if _, err = v.C.handlePackets(); err != nil {
			break
		}
		v.C.receivedPacketMx.Lock()
		queued = !v.C.receivedPackets.Empty()
		v.C.receivedPacketMx.Unlock()
	}
	// drain the wake-up the transport left for the run loop
	select {
	case <-v.C.notifyReceivedPacket:
	default:
	}
	return to, v.unp.seen, err
}
