//go:build verif

package quic

import (
	"sort"

	"github.com/refraction-networking/uquic/internal/protocol"
	"github.com/refraction-networking/uquic/internal/wire"
)

// Exporters for the verification harness (property C03). Add-only, read-only accessors and thin
// facades around the unexported frameSorter and cryptoStream; no behaviour is changed.

type VerifSorter struct{ s *frameSorter }

func VerifNewSorter() *VerifSorter { return &VerifSorter{s: newFrameSorter()} }

func (v *VerifSorter) Push(data []byte, offset int64, done func()) error {
	return v.s.Push(data, protocol.ByteCount(offset), done)
}

func (v *VerifSorter) Pop() (int64, []byte, func()) {
	o, d, cb := v.s.Pop()
	return int64(o), d, cb
}

// Peek returns (true, nil) for errTooLittleData.
func (v *VerifSorter) Peek(offset int64, p []byte) (tooLittle bool, err error) {
	e := v.s.Peek(protocol.ByteCount(offset), p)
	if e == errTooLittleData {
		return true, nil
	}
	return false, e
}

func (v *VerifSorter) HasMoreData() bool { return v.s.HasMoreData() }
func (v *VerifSorter) NumGaps() int      { return v.s.gaps.Len() }
func (v *VerifSorter) NumEntries() int   { return len(v.s.queue) }
func (v *VerifSorter) ReadPos() int64    { return int64(v.s.readPos) }

// Gaps lists the gap list front to back.
func (v *VerifSorter) Gaps() [][2]int64 {
	var out [][2]int64
	for g := v.s.gaps.Front(); g != nil; g = g.Next() {
		out = append(out, [2]int64{int64(g.Value.Start), int64(g.Value.End)})
	}
	return out
}

// Entries lists (offset, length, has-callback) of the queued frames, sorted by offset.
func (v *VerifSorter) Entries() [][3]int64 {
	var out [][3]int64
	for o, e := range v.s.queue {
		cb := int64(0)
		if e.DoneCb != nil {
			cb = 1
		}
		out = append(out, [3]int64{int64(o), int64(len(e.Data)), cb})
	}
	sort.Slice(out, func(i, j int) bool { return out[i][0] < out[j][0] })
	return out
}

type VerifCryptoStream struct{ s *cryptoStream }

func VerifNewCryptoStream() *VerifCryptoStream { return &VerifCryptoStream{s: newCryptoStream()} }

func (v *VerifCryptoStream) HandleCryptoFrame(offset int64, data []byte) error {
	return v.s.HandleCryptoFrame(&wire.CryptoFrame{Offset: protocol.ByteCount(offset), Data: data})
}
func (v *VerifCryptoStream) GetCryptoData() []byte { return v.s.GetCryptoData() }
func (v *VerifCryptoStream) Finish() error         { return v.s.Finish() }
