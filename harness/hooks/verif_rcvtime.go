//go:build verif

package quic

import (
	"fmt"
	"net"
	"strings"

	"github.com/refraction-networking/uquic/internal/monotime"
)

// Exporters for the C12 receive-time driver (rcvtime). Add-only.
//
// The idle timer of a connection is restarted from the receive time a packet was STAMPED with where it was read
// off the socket (sys_conn.go basicConn.ReadPacket / sys_conn_oob.go oobConn.ReadPacket → receivedPacket.rcvTime →
// Transport.listen → Conn.handlePacket → handleUnpacked{Short,Long}HeaderPacket → lastPacketReceivedTime).
// The limglue driver hands the stamp to handleUnpackedShortHeaderPacket itself; this hook exposes the two ends of
// the chain in front of it.
//
// Unexported identifiers named here (a rename breaks the build of this hook, not the property):
// wrapConn, rawConn.ReadPacket, receivedPacket.rcvTime / data / buffer, Conn.lastPacketReceivedTime.

// VerifRawConn is the socket wrapper a Transport reads its packets from.
type VerifRawConn struct{ c rawConn }

// VerifWrapConn wraps pc exactly as Transport.init does. kind: "oob" (recvmmsg path) or "basic".
func VerifWrapConn(pc net.PacketConn) (*VerifRawConn, string, error) {
	c, err := wrapConn(pc)
	if err != nil {
		return nil, "", err
	}
	kind := "basic"
	if strings.Contains(fmt.Sprintf("%T", c), "oob") {
		kind = "oob"
	}
	return &VerifRawConn{c: c}, kind, nil
}

// ReadPacket: one packet; the receive time it was stamped with and its length.
func (v *VerifRawConn) ReadPacket() (monotime.Time, int, error) {
	p, err := v.c.ReadPacket()
	if err != nil {
		return 0, 0, err
	}
	n := len(p.data)
	if p.buffer != nil {
		p.buffer.Release()
	}
	return p.rcvTime, n, nil
}

func (v *VerifRawConn) Close() error { return v.c.Close() }

// VerifLastPacketReceivedTime: where the idle timer of the connection currently counts from (as far as received
// packets go). Read without synchronisation (an aligned 64-bit word; the driver reads it after the application
// has consumed data of the packet in question).
func (c *Conn) VerifLastPacketReceivedTime() monotime.Time { return c.lastPacketReceivedTime }
