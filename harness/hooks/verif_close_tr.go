//go:build verif

package quic

// Verification hooks for property C17, round 5: the life cycle of a Transport's read loop (who stops a
// single-use transport - quic.Listen / ListenAddr / Dial - once its listener is closed and its last
// connection is gone), driven on a REAL Transport over a scripted net.PacketConn, and accessors for the
// end-to-end driver. Add-only, build tag `verif`, injected by overlay.
//
// Unexported identifiers named here: Transport.isSingleUse / createdConn / listening / init,
// packetHandlerMap.Add / Remove / ReplaceWithClosed, Listener.baseServer.tr, the packetHandler interface.

import (
	"errors"
	"net"
	"os"
	"sync"
	"time"

	"github.com/refraction-networking/uquic/internal/protocol"
	"github.com/refraction-networking/uquic/internal/qerr"
	"github.com/refraction-networking/uquic/internal/testdata"
)

// verifPC is a socket on which nothing ever arrives: ReadFrom blocks until the read deadline passes (the
// error a UDP socket returns: a timeout that is Temporary) or the socket is closed.
type verifPC struct {
	mu       sync.Mutex
	deadline time.Time
	closed   bool
	wake     chan struct{}
	timeouts int
}

func newVerifPC() *verifPC { return &verifPC{wake: make(chan struct{}, 1)} }

func (c *verifPC) poke() {
	select {
	case c.wake <- struct{}{}:
	default:
	}
}

func (c *verifPC) ReadFrom([]byte) (int, net.Addr, error) {
	for {
		c.mu.Lock()
		if c.closed {
			c.mu.Unlock()
			return 0, nil, net.ErrClosed
		}
		var timer <-chan time.Time
		if !c.deadline.IsZero() {
			if !time.Now().Before(c.deadline) {
				c.timeouts++
				n := c.timeouts
				c.mu.Unlock()
				if n > 64 {
					// a read loop that keeps reading after the deadline passed would spin: end it for good
					return 0, nil, errors.New("verif: read loop spins on an expired read deadline")
				}
				return 0, nil, &net.OpError{Op: "read", Net: "udp", Err: os.ErrDeadlineExceeded}
			}
			timer = time.After(time.Until(c.deadline))
		}
		c.mu.Unlock()
		select {
		case <-c.wake:
		case <-timer:
		}
	}
}

func (c *verifPC) WriteTo(b []byte, _ net.Addr) (int, error) { return len(b), nil }
func (c *verifPC) Close() error {
	c.mu.Lock()
	c.closed = true
	c.mu.Unlock()
	c.poke()
	return nil
}
func (c *verifPC) LocalAddr() net.Addr { return &net.UDPAddr{IP: net.IPv4(1, 0, 0, 9), Port: 9} }
func (c *verifPC) SetDeadline(t time.Time) error {
	return c.SetReadDeadline(t)
}
func (c *verifPC) SetReadDeadline(t time.Time) error {
	c.mu.Lock()
	c.deadline = t
	c.mu.Unlock()
	c.poke()
	return nil
}
func (c *verifPC) SetWriteDeadline(time.Time) error { return nil }
func (c *verifPC) isClosed() bool {
	c.mu.Lock()
	defer c.mu.Unlock()
	return c.closed
}

// verifTrHandler stands for a live connection in the routing table: destroy (Transport.Close) removes the
// connection's IDs the way Conn.destroy -> handleCloseError -> connIDGenerator.RemoveAll does.
type verifTrHandler struct {
	phm *packetHandlerMap
	ids []protocol.ConnectionID
}

func (h *verifTrHandler) handlePacket(p receivedPacket) { p.buffer.MaybeRelease() }
func (h *verifTrHandler) destroy(error) {
	for _, id := range h.ids {
		h.phm.Remove(id)
	}
}
func (h *verifTrHandler) closeWithTransportError(qerr.TransportErrorCode) {}

// VerifTrEvent: Kind 'L' Transport.Listen, 'c' Listener.Close, 'a' connection K is added (packetHandlerMap.Add
// of each of its IDs), 'r' ReplaceWithClosed of K's IDs (Arg 1: with a CONNECTION_CLOSE packet, 0: remote),
// 'x' Remove of each of K's IDs (the immediate-close path), 'w' Arg ms pass, 'T' Transport.Close.
type VerifTrEvent struct {
	Kind byte
	K    int
	Arg  int64
}

type VerifTrIn struct {
	Single, Created bool
	NIDs            int // connection IDs per connection (1 or 2)
	Expiry          time.Duration
	Events          []VerifTrEvent
}

// VerifTrObs is read after every event, once all goroutines have settled.
type VerifTrObs struct {
	Stopped    bool // the read loop has returned (Transport.listening is closed)
	ConnClosed bool // the socket was closed
	Handlers   int
	Err        bool // the event's call returned an error
}

var verifTrEnvOnce sync.Once

// VerifTrLife must run inside a synctest bubble; wait is synctest.Wait.
func VerifTrLife(in VerifTrIn, wait func()) []VerifTrObs {
	verifTrEnvOnce.Do(func() { os.Setenv("QUIC_GO_DISABLE_RECEIVE_BUFFER_WARNING", "true") })
	pc := newVerifPC()
	tr := &Transport{Conn: pc, isSingleUse: in.Single, createdConn: in.Created}
	_ = tr.init(in.Single)
	phm := (*packetHandlerMap)(tr)
	idsOf := func(k int) []protocol.ConnectionID {
		n := in.NIDs
		if n < 1 {
			n = 1
		}
		if n > 2 {
			n = 2
		}
		var l []protocol.ConnectionID
		for j := 0; j < n; j++ {
			l = append(l, protocol.ParseConnectionID([]byte{0xc0, byte(k), byte(j), 1, 2, 3, 4, 5}))
		}
		return l
	}
	var ln *Listener
	var out []VerifTrObs
	maxWait := in.Expiry
	for _, ev := range in.Events {
		failed := false
		switch ev.Kind {
		case 'L':
			l, err := tr.Listen(testdata.GetTLSConfig(), &Config{})
			if err != nil {
				failed = true
			} else {
				ln = l
			}
		case 'c':
			if ln != nil {
				failed = ln.Close() != nil
			}
		case 'a':
			h := &verifTrHandler{phm: phm, ids: idsOf(ev.K)}
			for _, id := range h.ids {
				if !phm.Add(id, h) {
					failed = true
				}
			}
		case 'r':
			var pkt []byte
			if ev.Arg == 1 {
				pkt = []byte("connection close")
			}
			phm.ReplaceWithClosed(idsOf(ev.K), pkt, in.Expiry)
		case 'x':
			for _, id := range idsOf(ev.K) {
				phm.Remove(id)
			}
		case 'w':
			time.Sleep(time.Duration(ev.Arg) * time.Millisecond)
		case 'T':
			failed = tr.Close() != nil
		}
		wait()
		o := VerifTrObs{ConnClosed: pc.isClosed(), Err: failed}
		select {
		case <-tr.listening:
			o.Stopped = true
		default:
		}
		o.Handlers, _ = tr.VerifRouting()
		out = append(out, o)
	}
	// tear down: nothing of this transport may stay in the bubble
	if ln != nil {
		ln.Close()
	}
	tr.Close()
	pc.Close()
	time.Sleep(maxWait + time.Second)
	wait()
	return out
}

// VerifStopped reports whether the transport's read loop has returned.
func (t *Transport) VerifStopped() bool {
	if t.listening == nil {
		return false
	}
	select {
	case <-t.listening:
		return true
	default:
		return false
	}
}

// VerifTransport returns the transport a listener runs on (the single-use one made by quic.Listen).
func (l *Listener) VerifTransport() *Transport { return (*Transport)(l.baseServer.tr) }
