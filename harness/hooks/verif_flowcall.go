//go:build verif

package quic

import (
	"context"
	"errors"
	"fmt"
	"net"
	"time"

	"github.com/refraction-networking/uquic/internal/ackhandler"
	"github.com/refraction-networking/uquic/internal/flowcontrol"
	"github.com/refraction-networking/uquic/internal/handshake"
	"github.com/refraction-networking/uquic/internal/monotime"
	"github.com/refraction-networking/uquic/internal/protocol"
	"github.com/refraction-networking/uquic/internal/qerr"
	"github.com/refraction-networking/uquic/internal/utils"
	"github.com/refraction-networking/uquic/internal/wire"
	"github.com/refraction-networking/uquic/qlogwriter"
	tls "github.com/refraction-networking/utls"
)

// Exporters for the C04 caller-level driver (flowcall). Add-only; injected together with the C15 / C03
// glue hooks verif_sglue.go / verif_rglue.go, whose inert sendConn / connRunner / qlog trace, packet
// entry point (VerifGlueConn.HandlePacket = the real Conn.handleShortHeaderPacket with a stand-in for
// packet protection only) and AdvertisedWindows (the transport parameters handed to the TLS stack) are
// reused here.
//
// VerifFCConn is a connection created by the REAL constructors newConnection (server), newClientConnection
// (client) or newUClientConnection (client driven by a QUICSpec) — as Transport / UTransport call them
// after validateConfig + populateConfig — traced (qlog) or not. Nothing is run: the driver plays the run
// loop. Incoming frames go through the streams map's dispatch or, as whole packets, through the real
// handleShortHeaderPacket → handleUnpackedShortHeaderPacket → handleFrames → handleFrame; outgoing frames
// are composed by the real framer, either directly or by the real Conn.sendPackets (whose packer is a
// stand-in that asks the real framer for one payload and sends nothing).
type VerifFCConn struct {
	C  *Conn
	g  *VerifGlueConn
	pk *verifFCPacker
	pn int64
}

// verifFCPacker stands in for the packet packer below Conn.sendPackets: it composes the payload of one
// packet with the connection's real framer and reports "nothing to send".
type verifFCPacker struct {
	c      *Conn
	maxLen protocol.ByteCount
	called bool
	frames []ackhandler.Frame
	sfs    []ackhandler.StreamFrame
}

var errVerifFCPacker = errors.New("verif: packer stand-in: not expected here")

func (p *verifFCPacker) PackCoalescedPacket(onlyAck bool, _ protocol.ByteCount, now monotime.Time, v protocol.Version) (*coalescedPacket, error) {
	p.called = true
	if !onlyAck {
		p.frames, p.sfs, _ = p.c.framer.Append(nil, nil, p.maxLen, now, v)
	}
	return nil, nil
}

func (p *verifFCPacker) PackAckOnlyPacket(protocol.ByteCount, monotime.Time, protocol.Version) (shortHeaderPacket, *packetBuffer, error) {
	return shortHeaderPacket{}, nil, errNothingToPack
}

func (p *verifFCPacker) AppendPacket(_ *packetBuffer, _ protocol.ByteCount, now monotime.Time, v protocol.Version) (shortHeaderPacket, error) {
	if !p.called {
		p.called = true
		p.frames, p.sfs, _ = p.c.framer.Append(nil, nil, p.maxLen, now, v)
	}
	return shortHeaderPacket{}, errNothingToPack
}

func (p *verifFCPacker) PackPTOProbePacket(protocol.EncryptionLevel, protocol.ByteCount, bool, monotime.Time, protocol.Version) (*coalescedPacket, error) {
	return nil, errVerifFCPacker
}

func (p *verifFCPacker) PackConnectionClose(*qerr.TransportError, protocol.ByteCount, protocol.Version) (*coalescedPacket, error) {
	return nil, errVerifFCPacker
}

func (p *verifFCPacker) PackApplicationClose(*qerr.ApplicationError, protocol.ByteCount, protocol.Version) (*coalescedPacket, error) {
	return nil, errVerifFCPacker
}

func (p *verifFCPacker) PackPathProbePacket(protocol.ConnectionID, []ackhandler.Frame, protocol.Version) (shortHeaderPacket, *packetBuffer, error) {
	return shortHeaderPacket{}, nil, errVerifFCPacker
}

func (p *verifFCPacker) PackMTUProbePacket(ackhandler.Frame, protocol.ByteCount, protocol.Version) (shortHeaderPacket, *packetBuffer, error) {
	return shortHeaderPacket{}, nil, errVerifFCPacker
}

func (p *verifFCPacker) SetToken([]byte) {}

// VerifFCNew creates the connection. kind: "server", "client", "uclient" (spec must be non-nil).
func VerifFCNew(kind string, conf *Config, spec *QUICSpec, traced bool) (v *VerifFCConn, err error) {
	defer func() {
		if e := recover(); e != nil {
			v, err = nil, fmt.Errorf("constructor panicked: %v", e)
		}
	}()
	if err := validateConfig(conf); err != nil {
		return nil, err
	}
	conf = populateConfig(conf)
	remote := &net.UDPAddr{IP: net.IPv4(192, 0, 2, 1), Port: 4433}
	sc := verifGlueSendConn{local: &net.UDPAddr{IP: net.IPv4(127, 0, 0, 1), Port: 1234}, remote: remote}
	var trace qlogwriter.Trace
	if traced {
		trace = verifGlueTrace{}
	}
	dest := protocol.ParseConnectionID([]byte{0xde, 0xad, 0xbe, 0xef, 1, 2, 3, 4})
	src := protocol.ParseConnectionID([]byte{9, 8, 7, 6})
	gen := &protocol.DefaultConnectionIDGenerator{ConnLen: src.Len()}
	var c *Conn
	switch kind {
	case "server":
		ctx, cancel := context.WithCancelCause(context.Background())
		w := newConnection(ctx, cancel, sc, verifGlueRunner{}, dest, nil, protocol.ConnectionID{}, dest, src, gen,
			newStatelessResetter(nil), conf, &tls.Config{}, handshake.NewTokenGenerator(handshake.TokenProtectorKey{}),
			false, 10*time.Millisecond, trace, utils.DefaultLogger, protocol.Version1)
		c = w.Conn
	case "client":
		w := newClientConnection(context.Background(), sc, verifGlueRunner{}, dest, src, gen, newStatelessResetter(nil),
			conf, &tls.Config{ServerName: "verif.example"}, 0, true, false, trace, utils.DefaultLogger, protocol.Version1)
		c = w.Conn
	case "uclient":
		if spec == nil {
			return nil, errors.New("verif: uclient needs a spec")
		}
		w := newUClientConnection(context.Background(), sc, verifGlueRunner{}, dest, src, gen, newStatelessResetter(nil),
			conf, &tls.Config{ServerName: "verif.example", NextProtos: []string{"h3"}}, 0, false, false, trace,
			utils.DefaultLogger, protocol.Version1, spec)
		c = w.Conn
	default:
		return nil, errors.New("verif: unknown kind")
	}
	g := &VerifGlueConn{C: c, unp: &verifGlueUnpacker{}, addr: remote, now: monotime.Time(1_000_000_000)}
	c.unpacker = verifFCUnpacker{g.unp}
	pk := &verifFCPacker{c: c}
	c.packer = pk
	return &VerifFCConn{C: c, g: g, pk: pk}, nil
}

// Traced says whether the connection records qlog events (handleFrames then keeps parsing after an error).
func (v *VerifFCConn) Traced() bool { return v.C.qlogger != nil }

// Advertised: initial_max_data and initial_max_stream_data_bidi_local / _bidi_remote / _uni of the transport
// parameters the constructor handed to the TLS stack (what the peer is told it may send).
func (v *VerifFCConn) Advertised() (maxData, bidiLocal, bidiRemote, uni int64, ok bool) {
	bidiLocal, bidiRemote, uni, maxData, ok = v.g.AdvertisedWindows()
	return
}

// RestoreParameters: a client resumes a session with remembered transport parameters (0-RTT): the real
// restoreTransportParameters, which the run loop calls on handshake.EventRestoredTransportParameters.
func (v *VerifFCConn) RestoreParameters(p *wire.TransportParameters) {
	v.C.restoreTransportParameters(p)
}

// Reject0RTT: the server rejected 0-RTT (handshake.EventDiscard0RTTKeys → the real dropEncryptionLevel).
func (v *VerifFCConn) Reject0RTT(now monotime.Time) error {
	return v.C.dropEncryptionLevel(protocol.Encryption0RTT, now)
}

// NextConnection: the handshake completes (stand-in: the channel handleHandshakeComplete closes) and the
// application calls the real Conn.NextConnection to go on after a 0-RTT rejection.
func (v *VerifFCConn) NextConnection() error {
	select {
	case <-v.C.handshakeCompleteChan:
	default:
		close(v.C.handshakeCompleteChan)
	}
	_, err := v.C.NextConnection(context.Background())
	return err
}

// HandlePacket: one 1-RTT packet with this plaintext payload, received at rcvTime, through the real
// Conn.handleShortHeaderPacket.
func (v *VerifFCConn) HandlePacket(payload []byte, rcvTime monotime.Time) (processed bool, err error) {
	v.pn++
	v.g.now = rcvTime - monotime.Time(time.Millisecond)
	return v.g.HandlePacket(v.pn, payload)
}

// verifFCUnpacker: the glue unpacker (stand-in for packet protection), plus 0-RTT long header packets.
type verifFCUnpacker struct{ *verifGlueUnpacker }

func (u verifFCUnpacker) UnpackLongHeader(hdr *wire.Header, _ []byte) (*unpackedPacket, error) {
	return &unpackedPacket{
		hdr:             &wire.ExtendedHeader{Header: *hdr, PacketNumber: u.pn, PacketNumberLen: protocol.PacketNumberLen2},
		encryptionLevel: protocol.Encryption0RTT,
		data:            u.payload,
	}, nil
}

// Handle0RTTPacket: one 0-RTT packet with this plaintext payload through the real Conn.handleLongHeaderPacket
// (→ handleUnpackedLongHeaderPacket → handleFrames at encryption level 0-RTT). Servers only.
func (v *VerifFCConn) Handle0RTTPacket(payload []byte, rcvTime monotime.Time) (processed bool, err error) {
	c := v.C
	v.pn++
	v.g.unp.pn = protocol.PacketNumber(v.pn)
	v.g.unp.payload = payload
	hdr := &wire.Header{
		Type:             protocol.PacketType0RTT,
		Version:          c.version,
		SrcConnectionID:  c.handshakeDestConnID,
		DestConnectionID: c.origDestConnID,
		Length:           protocol.ByteCount(2 + len(payload) + 16),
	}
	p := receivedPacket{buffer: getPacketBuffer(), remoteAddr: v.g.addr, rcvTime: rcvTime, data: make([]byte, 7+2*8+2+len(payload)+16)}
	p.data[0] = 0xd0
	return c.handleLongHeaderPacket(p, hdr, 0)
}

// SendPackets runs the real Conn.sendPackets (MAX_DATA step included); the packer stand-in composes one
// payload of at most maxLen bytes with the real framer.
func (v *VerifFCConn) SendPackets(maxLen protocol.ByteCount, now monotime.Time) ([]ackhandler.Frame, []ackhandler.StreamFrame, error) {
	v.pk.maxLen, v.pk.called, v.pk.frames, v.pk.sfs = maxLen, false, nil, nil
	err := v.C.sendPackets(now)
	return v.pk.frames, v.pk.sfs, err
}

// PeerParameters: the peer's transport parameters arrive (the real handleTransportParameters; a client
// applies them at handshake completion, which the driver triggers right away).
func (v *VerifFCConn) PeerParameters(p *wire.TransportParameters) error {
	c := v.C
	p.InitialSourceConnectionID = c.handshakeDestConnID
	if c.perspective == protocol.PerspectiveClient {
		p.OriginalDestinationConnectionID = c.origDestConnID
	}
	if err := c.handleTransportParameters(p); err != nil {
		return err
	}
	if c.perspective == protocol.PerspectiveClient {
		c.applyTransportParameters()
	}
	return nil
}

func (v *VerifFCConn) ConnFC() flowcontrol.ConnectionFlowController { return v.C.connFlowController }

// OpenBidi / OpenUni: the application opens a stream (streamsMap → Conn.newFlowController).
func (v *VerifFCConn) OpenBidi() (*SendStream, *ReceiveStream, protocol.StreamID, error) {
	s, err := v.C.streamsMap.OpenStream()
	if err != nil {
		return nil, nil, 0, err
	}
	return s.sendStr, s.receiveStr, s.StreamID(), nil
}

func (v *VerifFCConn) OpenUni() (*SendStream, protocol.StreamID, error) {
	s, err := v.C.streamsMap.OpenUniStream()
	if err != nil {
		return nil, 0, err
	}
	return s, s.StreamID(), nil
}

// PeerOpens: the peer opens stream id (here by a STREAM_DATA_BLOCKED frame, which creates the stream
// and carries no data). Returns the halves that exist on our side.
func (v *VerifFCConn) PeerOpens(id protocol.StreamID) (*SendStream, *ReceiveStream, error) {
	if err := v.C.streamsMap.HandleStreamDataBlockedFrame(&wire.StreamDataBlockedFrame{StreamID: id}); err != nil {
		return nil, nil, err
	}
	h, err := v.C.streamsMap.getReceiveStream(id)
	if err != nil || h == nil {
		return nil, nil, err
	}
	switch s := h.(type) {
	case *Stream:
		return s.sendStr, s.receiveStr, nil
	case *ReceiveStream:
		return nil, s, nil
	}
	return nil, nil, errors.New("verif: unexpected stream type")
}

// frames from the peer, through the streams map as Conn.handleFrame does
func (v *VerifFCConn) HandleStreamFrame(f *wire.StreamFrame, now monotime.Time) error {
	return v.C.streamsMap.HandleStreamFrame(f, now)
}

func (v *VerifFCConn) HandleResetStreamFrame(f *wire.ResetStreamFrame, now monotime.Time) error {
	return v.C.streamsMap.HandleResetStreamFrame(f, now)
}

func (v *VerifFCConn) HandleMaxStreamDataFrame(f *wire.MaxStreamDataFrame) error {
	return v.C.streamsMap.HandleMaxStreamDataFrame(f)
}

// HandleMaxDataFrame: `case *wire.MaxDataFrame:` of Conn.handleFrame
func (v *VerifFCConn) HandleMaxDataFrame(f *wire.MaxDataFrame) {
	v.C.connFlowController.UpdateSendWindow(f.MaximumData)
}

// ReceiveStreamGone says whether the streams map has already deleted the stream (frames are then dropped).
func (v *VerifFCConn) ReceiveStreamGone(id protocol.StreamID) bool {
	h, err := v.C.streamsMap.getReceiveStream(id)
	return err == nil && h == nil
}

// QueueMaxData is the MAX_DATA step of Conn.sendPackets / maybeSendAckOnlyPacket.
func (v *VerifFCConn) QueueMaxData(now monotime.Time) protocol.ByteCount {
	c := v.C
	offset := c.connFlowController.GetWindowUpdate(now)
	if offset > 0 {
		c.framer.QueueControlFrame(&wire.MaxDataFrame{MaximumData: offset})
	}
	return offset
}

// Pack composes the frames of one packet payload of at most maxLen bytes with the connection's framer.
func (v *VerifFCConn) Pack(maxLen protocol.ByteCount, now monotime.Time) ([]ackhandler.Frame, []ackhandler.StreamFrame) {
	frames, streamFrames, _ := v.C.framer.Append(nil, nil, maxLen, now, protocol.Version1)
	return frames, streamFrames
}

func VerifFCSendDump(s *SendStream) string       { return flowcontrol.VerifDump(s.flowController) }
func VerifFCReceiveDump(s *ReceiveStream) string { return flowcontrol.VerifDump(s.flowController) }

var errVerifFCDone = errors.New("verif: case finished")

func VerifFCShutdownSend(s *SendStream)       { s.closeForShutdown(errVerifFCDone) }
func VerifFCShutdownReceive(s *ReceiveStream) { s.closeForShutdown(errVerifFCDone) }
