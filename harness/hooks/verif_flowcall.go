//go:build verif

package quic

import (
	"context"
	"errors"
	"fmt"
	"net"
	"time"

	"github.com/refraction-networking/uquic/internal/ackhandler"
	"github.com/refraction-networking/uquic/internal/flowcontrol"
	"github.com/refraction-networking/uquic/internal/monotime"
	"github.com/refraction-networking/uquic/internal/protocol"
	"github.com/refraction-networking/uquic/internal/utils"
	"github.com/refraction-networking/uquic/internal/wire"
	tls "github.com/refraction-networking/utls"
)

// Exporters for the C04 caller-level driver (flowcall). Add-only.
//
// VerifFCConn is a real *Conn built far enough (the same constructors newConnection /
// newClientConnection call: conn-ID manager and generator, preSetup) to run the real
// handleTransportParameters / applyTransportParameters, the real streams map with the real
// Conn.newFlowController closure, the real framer and the real frame dispatch of the streams map.
// There is no packer, no crypto and no run loop: the driver plays the run loop.
type VerifFCConn struct {
	C *Conn
}

type verifFCRunner struct{}

func (verifFCRunner) Add(protocol.ConnectionID, packetHandler) bool                    { return true }
func (verifFCRunner) Remove(protocol.ConnectionID)                                     {}
func (verifFCRunner) ReplaceWithClosed([]protocol.ConnectionID, []byte, time.Duration) {}
func (verifFCRunner) AddResetToken(protocol.StatelessResetToken, packetHandler)        {}
func (verifFCRunner) RemoveResetToken(protocol.StatelessResetToken)                    {}

var (
	verifFCDestConnID = protocol.ParseConnectionID([]byte{0xde, 0xad, 0xbe, 0xef})
	verifFCSrcConnID  = protocol.ParseConnectionID([]byte{1, 2, 3, 4})
	verifFCOrigDest   = protocol.ParseConnectionID([]byte{9, 9, 9, 9, 9, 9, 9, 9})
)

// VerifFCNewConn builds the connection with our configuration (validated by the real populateConfig).
func VerifFCNewConn(client bool, conf *Config) *VerifFCConn {
	ctx, cancel := context.WithCancelCause(context.Background())
	c := &Conn{
		ctx:                 ctx,
		ctxCancel:           cancel,
		config:              populateConfig(conf),
		handshakeDestConnID: verifFCDestConnID,
		origDestConnID:      verifFCOrigDest,
		srcConnIDLen:        verifFCSrcConnID.Len(),
		perspective:         protocol.PerspectiveServer,
		logger:              utils.DefaultLogger,
		version:             protocol.Version1,
	}
	if client {
		c.perspective = protocol.PerspectiveClient
	}
	runner := verifFCRunner{}
	c.connIDManager = newConnIDManager(
		verifFCDestConnID,
		func(token protocol.StatelessResetToken) { runner.AddResetToken(token, nil) },
		runner.RemoveResetToken,
		c.queueControlFrame,
	)
	var clientDest *protocol.ConnectionID
	if !client {
		clientDest = &verifFCOrigDest
	}
	c.connIDGenerator = newConnIDGenerator(
		runner,
		verifFCSrcConnID,
		clientDest,
		newStatelessResetter(nil),
		connRunnerCallbacks{
			AddConnectionID:    func(protocol.ConnectionID) {},
			RemoveConnectionID: runner.Remove,
			ReplaceWithClosed:  runner.ReplaceWithClosed,
		},
		c.queueControlFrame,
		&protocol.DefaultConnectionIDGenerator{ConnLen: verifFCSrcConnID.Len()},
	)
	c.preSetup()
	return &VerifFCConn{C: c}
}

type verifFCSendConn struct{}

func (verifFCSendConn) Write([]byte, uint16, protocol.ECN) error { return nil }
func (verifFCSendConn) WriteTo([]byte, net.Addr) error           { return nil }
func (verifFCSendConn) Close() error                             { return nil }
func (verifFCSendConn) LocalAddr() net.Addr                      { return &net.UDPAddr{IP: net.IPv4(10, 0, 0, 1), Port: 1} }
func (verifFCSendConn) RemoteAddr() net.Addr                     { return &net.UDPAddr{IP: net.IPv4(10, 0, 0, 2), Port: 2} }
func (verifFCSendConn) ChangeRemoteAddr(net.Addr, packetInfo)    {}
func (verifFCSendConn) capabilities() connCapabilities           { return connCapabilities{} }

// VerifFCNewUConn builds a spec-driven client with the REAL newUClientConnection (the spec's transport
// parameters are what is advertised; configCoveringAdvertised + preSetup decide what is enforced). The
// handshake is never started; the driver delivers the peer's parameters with PeerParameters.
func VerifFCNewUConn(spec *QUICSpec, conf *Config) (v *VerifFCConn, err error) {
	defer func() {
		if e := recover(); e != nil {
			v, err = nil, fmt.Errorf("newUClientConnection panicked: %v", e)
		}
	}()
	w := newUClientConnection(
		context.Background(),
		verifFCSendConn{},
		verifFCRunner{},
		verifFCDestConnID,
		verifFCSrcConnID,
		&protocol.DefaultConnectionIDGenerator{ConnLen: verifFCSrcConnID.Len()},
		newStatelessResetter(nil),
		populateConfig(conf),
		&tls.Config{ServerName: "verif.example", NextProtos: []string{"h3"}},
		0,
		false,
		false,
		nil,
		utils.DefaultLogger,
		protocol.Version1,
		spec,
	)
	return &VerifFCConn{C: w.Conn}, nil
}

// PeerParameters: the peer's transport parameters arrive (the real handleTransportParameters; a client
// applies them at handshake completion, which the driver triggers right away).
func (v *VerifFCConn) PeerParameters(p *wire.TransportParameters) error {
	c := v.C
	p.InitialSourceConnectionID = c.handshakeDestConnID
	if c.perspective == protocol.PerspectiveClient {
		p.OriginalDestinationConnectionID = c.origDestConnID
	}
	if err := c.handleTransportParameters(p); err != nil {
		return err
	}
	if c.perspective == protocol.PerspectiveClient {
		c.applyTransportParameters()
	}
	return nil
}

func (v *VerifFCConn) ConnFC() flowcontrol.ConnectionFlowController { return v.C.connFlowController }

// OpenBidi / OpenUni: the application opens a stream (streamsMap → Conn.newFlowController).
func (v *VerifFCConn) OpenBidi() (*SendStream, *ReceiveStream, protocol.StreamID, error) {
	s, err := v.C.streamsMap.OpenStream()
	if err != nil {
		return nil, nil, 0, err
	}
	return s.sendStr, s.receiveStr, s.StreamID(), nil
}

func (v *VerifFCConn) OpenUni() (*SendStream, protocol.StreamID, error) {
	s, err := v.C.streamsMap.OpenUniStream()
	if err != nil {
		return nil, 0, err
	}
	return s, s.StreamID(), nil
}

// PeerOpens: the peer opens stream id (here by a STREAM_DATA_BLOCKED frame, which creates the stream
// and carries no data). Returns the halves that exist on our side.
func (v *VerifFCConn) PeerOpens(id protocol.StreamID) (*SendStream, *ReceiveStream, error) {
	if err := v.C.streamsMap.HandleStreamDataBlockedFrame(&wire.StreamDataBlockedFrame{StreamID: id}); err != nil {
		return nil, nil, err
	}
	h, err := v.C.streamsMap.getReceiveStream(id)
	if err != nil || h == nil {
		return nil, nil, err
	}
	switch s := h.(type) {
	case *Stream:
		return s.sendStr, s.receiveStr, nil
	case *ReceiveStream:
		return nil, s, nil
	}
	return nil, nil, errors.New("verif: unexpected stream type")
}

// frames from the peer, through the streams map as Conn.handleFrame does
func (v *VerifFCConn) HandleStreamFrame(f *wire.StreamFrame, now monotime.Time) error {
	return v.C.streamsMap.HandleStreamFrame(f, now)
}

func (v *VerifFCConn) HandleResetStreamFrame(f *wire.ResetStreamFrame, now monotime.Time) error {
	return v.C.streamsMap.HandleResetStreamFrame(f, now)
}

func (v *VerifFCConn) HandleMaxStreamDataFrame(f *wire.MaxStreamDataFrame) error {
	return v.C.streamsMap.HandleMaxStreamDataFrame(f)
}

// HandleMaxDataFrame: `case *wire.MaxDataFrame:` of Conn.handleFrame
func (v *VerifFCConn) HandleMaxDataFrame(f *wire.MaxDataFrame) {
	v.C.connFlowController.UpdateSendWindow(f.MaximumData)
}

// ReceiveStreamGone says whether the streams map has already deleted the stream (frames are then dropped).
func (v *VerifFCConn) ReceiveStreamGone(id protocol.StreamID) bool {
	h, err := v.C.streamsMap.getReceiveStream(id)
	return err == nil && h == nil
}

// QueueMaxData is the MAX_DATA step of Conn.sendPackets / maybeSendAckOnlyPacket.
func (v *VerifFCConn) QueueMaxData(now monotime.Time) protocol.ByteCount {
	c := v.C
	offset := c.connFlowController.GetWindowUpdate(now)
	if offset > 0 {
		c.framer.QueueControlFrame(&wire.MaxDataFrame{MaximumData: offset})
	}
	return offset
}

// Pack composes the frames of one packet payload of at most maxLen bytes with the connection's framer.
func (v *VerifFCConn) Pack(maxLen protocol.ByteCount, now monotime.Time) ([]ackhandler.Frame, []ackhandler.StreamFrame) {
	frames, streamFrames, _ := v.C.framer.Append(nil, nil, maxLen, now, protocol.Version1)
	return frames, streamFrames
}

func VerifFCSendDump(s *SendStream) string       { return flowcontrol.VerifDump(s.flowController) }
func VerifFCReceiveDump(s *ReceiveStream) string { return flowcontrol.VerifDump(s.flowController) }

var errVerifFCDone = errors.New("verif: case finished")

func VerifFCShutdownSend(s *SendStream)       { s.closeForShutdown(errVerifFCDone) }
func VerifFCShutdownReceive(s *ReceiveStream) { s.closeForShutdown(errVerifFCDone) }
