//go:build verif

package quic

import (
	"context"
	"errors"

	"github.com/refraction-networking/uquic/internal/ackhandler"
	"github.com/refraction-networking/uquic/internal/flowcontrol"
	"github.com/refraction-networking/uquic/internal/monotime"
	"github.com/refraction-networking/uquic/internal/protocol"
	"github.com/refraction-networking/uquic/internal/wire"
)

// Exporters for the C04 caller-level driver (flowcall): real SendStream / ReceiveStream / framer
// wired together the way connection.go wires them (see Conn.onHasStreamData etc.). Add-only.

// VerifFCHarness plays the part of the connection for the streams: it is their streamSender.
type VerifFCHarness struct {
	framer    *framer
	Completed []protocol.StreamID
	ConnData  int
}

func VerifFCNew(connFC flowcontrol.ConnectionFlowController) *VerifFCHarness {
	return &VerifFCHarness{framer: newFramer(connFC)}
}

// the four methods of streamSender, with the bodies of the Conn methods of the same name
// (minus scheduleSending and the streams map)
func (h *VerifFCHarness) onHasConnectionData() { h.ConnData++ }
func (h *VerifFCHarness) onHasStreamData(id protocol.StreamID, str *SendStream) {
	h.framer.AddActiveStream(id, str)
}
func (h *VerifFCHarness) onHasStreamControlFrame(id protocol.StreamID, str streamControlFrameGetter) {
	h.framer.AddStreamWithControlFrames(id, str)
}
func (h *VerifFCHarness) onStreamCompleted(id protocol.StreamID) {
	h.Completed = append(h.Completed, id)
	h.framer.RemoveActiveStream(id)
}

func (h *VerifFCHarness) NewSendStream(id protocol.StreamID, fc flowcontrol.StreamFlowController) *SendStream {
	return newSendStream(context.Background(), id, h, fc, false)
}

func (h *VerifFCHarness) NewReceiveStream(id protocol.StreamID, fc flowcontrol.StreamFlowController) *ReceiveStream {
	return newReceiveStream(id, h, fc)
}

// QueueControlFrame is what connection.go does with the MAX_DATA frame it builds from
// connFlowController.GetWindowUpdate.
func (h *VerifFCHarness) QueueControlFrame(f wire.Frame) { h.framer.QueueControlFrame(f) }

// Pack composes the frames of one packet payload of at most maxLen bytes.
func (h *VerifFCHarness) Pack(maxLen protocol.ByteCount, now monotime.Time) ([]ackhandler.Frame, []ackhandler.StreamFrame) {
	frames, streamFrames, _ := h.framer.Append(nil, nil, maxLen, now, protocol.Version1)
	return frames, streamFrames
}

func VerifFCUpdateSendWindow(s *SendStream, limit protocol.ByteCount) { s.updateSendWindow(limit) }

func VerifFCHandleStreamFrame(s *ReceiveStream, f *wire.StreamFrame, now monotime.Time) error {
	return s.handleStreamFrame(f, now)
}

func VerifFCHandleResetStreamFrame(s *ReceiveStream, f *wire.ResetStreamFrame, now monotime.Time) error {
	return s.handleResetStreamFrame(f, now)
}

func VerifFCHandleStopSending(s *SendStream, code StreamErrorCode) {
	s.handleStopSendingFrame(&wire.StopSendingFrame{StreamID: s.streamID, ErrorCode: code})
}

var errVerifFCDone = errors.New("verif: case finished")

func VerifFCShutdownSend(s *SendStream)       { s.closeForShutdown(errVerifFCDone) }
func VerifFCShutdownReceive(s *ReceiveStream) { s.closeForShutdown(errVerifFCDone) }
