//go:build verif

package quic

// Exporter for the C16 multi-runner driver (add-only, build tag verif): ONE real connIDGenerator registered with
// SEVERAL real packetHandlerMaps, wired exactly as newClientConnection / newConnection (first transport) and
// Conn.AddPath (every further transport) do it:
//
//	connRunnerCallbacks{
//		AddConnectionID:    func(connID protocol.ConnectionID) { runner.Add(connID, c) },
//		RemoveConnectionID: runner.Remove,
//		ReplaceWithClosed:  runner.ReplaceWithClosed,
//	}
//
// The callbacks are wrapped only to RECORD them per transport; the arguments (in particular the slice of
// connIDGenerator.ReplaceWithClosed, which every transport receives and keeps for its expiry timer) are passed through
// untouched, so any aliasing between the transports is the real one.

import (
	"sort"
	"time"

	"github.com/refraction-networking/uquic/internal/monotime"
	"github.com/refraction-networking/uquic/internal/protocol"
)

type VerifMultiRunner struct {
	maps   []*VerifHandlerMap
	g      *connIDGenerator
	gen    *verifIDGen
	Frames []VerifCIDEvent   // NEW_CONNECTION_ID frames queued
	Events [][]VerifCIDEvent // routing callbacks, per transport
	// the slice each transport's ReplaceWithClosed was handed: the very slice header (it is what the transport's
	// expiry timer will read), and a copy of what it read when it was handed over
	handed     [][]protocol.ConnectionID
	handedThen [][][]byte
}

func (v *VerifMultiRunner) callbacks(k int) connRunnerCallbacks {
	runner := v.maps[k].h
	conn := v.maps[0].conn
	return connRunnerCallbacks{
		AddConnectionID: func(id protocol.ConnectionID) {
			v.Events[k] = append(v.Events[k], VerifCIDEvent{Kind: "addroute", ID: append([]byte{}, id.Bytes()...)})
			runner.Add(id, conn)
		},
		RemoveConnectionID: func(id protocol.ConnectionID) {
			v.Events[k] = append(v.Events[k], VerifCIDEvent{Kind: "rmroute", ID: append([]byte{}, id.Bytes()...)})
			runner.Remove(id)
		},
		ReplaceWithClosed: func(ids []protocol.ConnectionID, b []byte, expiry time.Duration) {
			e := VerifCIDEvent{Kind: "replace", Local: b != nil, Expiry: expiry}
			var then [][]byte
			for _, id := range ids {
				e.IDs = append(e.IDs, append([]byte{}, id.Bytes()...))
				then = append(then, append([]byte{}, id.Bytes()...))
			}
			v.Events[k] = append(v.Events[k], e)
			v.handed[k] = ids
			v.handedThen[k] = then
			runner.ReplaceWithClosed(ids, b, expiry)
		},
	}
}

// VerifNewMultiRunner builds n handler maps (transports) and a generator registered with transport 0.
// clientDest == nil for the client perspective. The handshake IDs are registered on transport 0 as Transport.dial /
// the server's accept path do.
func VerifNewMultiRunner(n, idLen int, initial, clientDest []byte, mk func(k, l int) []byte) *VerifMultiRunner {
	v := &VerifMultiRunner{gen: &verifIDGen{len: idLen, mk: mk}}
	for i := 0; i < n; i++ {
		v.maps = append(v.maps, VerifNewHandlerMap())
	}
	for _, m := range v.maps {
		m.conn = v.maps[0].conn // one connection, several transports
	}
	v.Events = make([][]VerifCIDEvent, n)
	v.handed = make([][]protocol.ConnectionID, n)
	v.handedThen = make([][][]byte, n)
	var cd *protocol.ConnectionID
	if clientDest != nil {
		c := protocol.ParseConnectionID(clientDest)
		cd = &c
	}
	key := StatelessResetKey{1, 2, 3}
	v.g = newConnIDGenerator(
		v.maps[0].h,
		protocol.ParseConnectionID(initial),
		cd,
		newStatelessResetter(&key),
		v.callbacks(0),
		recordFrame(&v.Frames),
		v.gen,
	)
	v.maps[0].AddInitial(initial)
	if clientDest != nil {
		v.maps[0].AddInitial(clientDest)
	}
	return v
}

func (v *VerifMultiRunner) Transports() int { return len(v.maps) }
func (v *VerifMultiRunner) Generated() int  { return v.gen.n }

// AddPath is what the enablePath closure of Conn.AddPath does for transport k.
func (v *VerifMultiRunner) AddPath(k int) { v.g.AddConnRunner(v.maps[k].h, v.callbacks(k)) }

func (v *VerifMultiRunner) SetMaxActiveConnIDs(limit uint64) error {
	return v.g.SetMaxActiveConnIDs(limit)
}
func (v *VerifMultiRunner) Retire(seq uint64, sentWithDest []byte, expiry int64) error {
	return v.g.Retire(seq, protocol.ParseConnectionID(sentWithDest), monotime.Time(expiry))
}
func (v *VerifMultiRunner) SetHandshakeComplete(expiry int64) {
	v.g.SetHandshakeComplete(monotime.Time(expiry))
}
func (v *VerifMultiRunner) RemoveRetiredConnIDs(now int64) {
	v.g.RemoveRetiredConnIDs(monotime.Time(now))
}
func (v *VerifMultiRunner) RemoveAll() { v.g.RemoveAll() }
func (v *VerifMultiRunner) ReplaceWithClosed(local bool, expiry time.Duration) {
	var b []byte
	if local {
		b = []byte{0x1c}
	}
	v.g.ReplaceWithClosed(b, expiry)
}

// Map gives access to transport k (Routes, Deliver, InstallSecond).
func (v *VerifMultiRunner) Map(k int) *VerifHandlerMap { return v.maps[k] }

// Handed: for transport k, what the slice it was handed by ReplaceWithClosed read at that moment and what the same
// slice reads now (both nil if ReplaceWithClosed was not called on it).
func (v *VerifMultiRunner) Handed(k int) (then, now [][]byte, ok bool) {
	if v.handedThen[k] == nil && v.handed[k] == nil {
		return nil, nil, false
	}
	for _, id := range v.handed[k] {
		now = append(now, append([]byte{}, id.Bytes()...))
	}
	return v.handedThen[k], now, true
}

// State: as VerifCIDGenerator.State.
func (v *VerifMultiRunner) State() (active []VerifCIDEntry, retire []VerifCIDEntry, retireAt []int64, clientDest []byte, highest uint64) {
	for s, id := range v.g.activeSrcConnIDs {
		active = append(active, VerifCIDEntry{Seq: s, ID: append([]byte{}, id.Bytes()...)})
	}
	sort.Slice(active, func(i, j int) bool { return active[i].Seq < active[j].Seq })
	for _, c := range v.g.connIDsToRetire {
		retire = append(retire, VerifCIDEntry{ID: append([]byte{}, c.connID.Bytes()...)})
		retireAt = append(retireAt, int64(c.t))
	}
	if v.g.initialClientDestConnID != nil {
		clientDest = append([]byte{}, v.g.initialClientDestConnID.Bytes()...)
		if clientDest == nil {
			clientDest = []byte{}
		}
	}
	return active, retire, retireAt, clientDest, v.g.highestSeq
}
