//go:build verif

package quic

import (
	"fmt"
	"sort"
	"strings"

	"github.com/refraction-networking/uquic/internal/ackhandler"
	"github.com/refraction-networking/uquic/internal/flowcontrol"
	"github.com/refraction-networking/uquic/internal/monotime"
	"github.com/refraction-networking/uquic/internal/protocol"
	"github.com/refraction-networking/uquic/internal/utils"
	"github.com/refraction-networking/uquic/internal/wire"
	tls "github.com/refraction-networking/utls"
)

// C13 `rst` driver (state carried across a reset of the connection). Add-only.
//
// (1) The REAL framer under the calls a connection makes on it: AddActiveStream / RemoveActiveStream /
// AddStreamWithControlFrames / QueueControlFrame / Handle0RTTRejection / Append. Streams are stubs that hold a
// number of pending frames; a 0-RTT rejection closes them (streamsMap.ResetFor0RTT -> closeForShutdown: a closed
// stream has nothing to send) and the stream the application opens afterwards under the same id is a NEW stub.
//
// (2) The per-dial copy of the ClientHelloSpec: the REAL cloneClientHelloSpecForDial followed by the in-place
// rewrites newUClientConnection performs on the copy (SuppressQUICTransportParameters, PopulateFromUQUIC), in their
// order.

type verifRstStream struct {
	id      protocol.StreamID
	pending int
}

func (s *verifRstStream) popStreamFrame(protocol.ByteCount, protocol.Version) (ackhandler.StreamFrame, *wire.StreamDataBlockedFrame, bool) {
	if s.pending == 0 {
		return ackhandler.StreamFrame{}, nil, false
	}
	s.pending--
	f := wire.GetStreamFrame()
	f.StreamID = s.id
	f.Data = append(f.Data[:0], 1, 2, 3, 4, 5, 6, 7, 8)
	f.DataLenPresent = true
	return ackhandler.StreamFrame{Frame: f}, nil, s.pending > 0
}

type verifRstCtl struct {
	id      protocol.StreamID
	pending int
}

func (s *verifRstCtl) getControlFrame(monotime.Time) (ackhandler.Frame, bool, bool) {
	if s.pending == 0 {
		return ackhandler.Frame{}, false, false
	}
	s.pending--
	return ackhandler.Frame{Frame: &wire.StopSendingFrame{StreamID: s.id, ErrorCode: 0x7777}}, true, s.pending > 0
}

type VerifRstFramer struct {
	f       *framer
	streams map[int64]*verifRstStream
	ctls    map[int64]*verifRstCtl
}

func VerifNewRstFramer() *VerifRstFramer {
	rtt := utils.NewRTTStats()
	cfc := flowcontrol.NewConnectionFlowController(1<<20, 1<<20, func(protocol.ByteCount) bool { return true }, rtt, utils.DefaultLogger)
	cfc.UpdateSendWindow(1 << 30)
	return &VerifRstFramer{f: newFramer(cfc), streams: map[int64]*verifRstStream{}, ctls: map[int64]*verifRstCtl{}}
}

// AddStream: the stream open under id gets n more frames to send and tells the framer (onHasStreamData).
func (v *VerifRstFramer) AddStream(id int64, n int) {
	s := v.streams[id]
	if s == nil {
		s = &verifRstStream{id: protocol.StreamID(id)}
		v.streams[id] = s
	}
	s.pending += n
	v.f.AddActiveStream(s.id, s)
}

// RemoveStream: the stream completed (onStreamCompleted).
func (v *VerifRstFramer) RemoveStream(id int64) {
	v.f.RemoveActiveStream(protocol.StreamID(id))
	delete(v.streams, id)
}

func (v *VerifRstFramer) AddCtl(id int64, n int) {
	s := v.ctls[id]
	if s == nil {
		s = &verifRstCtl{id: protocol.StreamID(id)}
		v.ctls[id] = s
	}
	s.pending += n
	v.f.AddStreamWithControlFrames(s.id, s)
}

// Queue queues one control frame of the given kind; tag travels in the frame's value.
func (v *VerifRstFramer) Queue(kind string, tag uint64) bool {
	var fr wire.Frame
	switch kind {
	case "maxdata":
		fr = &wire.MaxDataFrame{MaximumData: protocol.ByteCount(tag)}
	case "maxstreamdata":
		fr = &wire.MaxStreamDataFrame{StreamID: 4, MaximumStreamData: protocol.ByteCount(tag)}
	case "maxstreams":
		fr = &wire.MaxStreamsFrame{Type: protocol.StreamTypeBidi, MaxStreamNum: protocol.StreamNum(tag)}
	case "datablocked":
		fr = &wire.DataBlockedFrame{MaximumData: protocol.ByteCount(tag)}
	case "streamdatablocked":
		fr = &wire.StreamDataBlockedFrame{StreamID: 4, MaximumStreamData: protocol.ByteCount(tag)}
	case "streamsblocked":
		fr = &wire.StreamsBlockedFrame{Type: protocol.StreamTypeBidi, StreamLimit: protocol.StreamNum(tag)}
	case "newtoken":
		fr = &wire.NewTokenFrame{Token: []byte{byte(tag), byte(tag >> 8)}}
	case "stopsending":
		fr = &wire.StopSendingFrame{StreamID: protocol.StreamID(4 * tag), ErrorCode: 0x1000}
	case "retirecid":
		fr = &wire.RetireConnectionIDFrame{SequenceNumber: tag}
	case "ping":
		fr = &wire.PingFrame{}
	default:
		return false
	}
	v.f.QueueControlFrame(fr)
	return true
}

func verifRstFrameTxt(fr wire.Frame) string {
	switch f := fr.(type) {
	case *wire.MaxDataFrame:
		return fmt.Sprintf("maxdata#%d", f.MaximumData)
	case *wire.MaxStreamDataFrame:
		return fmt.Sprintf("maxstreamdata#%d", f.MaximumStreamData)
	case *wire.MaxStreamsFrame:
		return fmt.Sprintf("maxstreams#%d", f.MaxStreamNum)
	case *wire.DataBlockedFrame:
		return fmt.Sprintf("datablocked#%d", f.MaximumData)
	case *wire.StreamDataBlockedFrame:
		return fmt.Sprintf("streamdatablocked#%d", f.MaximumStreamData)
	case *wire.StreamsBlockedFrame:
		return fmt.Sprintf("streamsblocked#%d", f.StreamLimit)
	case *wire.NewTokenFrame:
		t := uint64(0)
		if len(f.Token) == 2 {
			t = uint64(f.Token[0]) | uint64(f.Token[1])<<8
		}
		return fmt.Sprintf("newtoken#%d", t)
	case *wire.StopSendingFrame:
		if f.ErrorCode == 0x7777 {
			return fmt.Sprintf("sc%d", f.StreamID)
		}
		return fmt.Sprintf("stopsending#%d", f.StreamID/4)
	case *wire.RetireConnectionIDFrame:
		return fmt.Sprintf("retirecid#%d", f.SequenceNumber)
	case *wire.PingFrame:
		return "ping#0"
	}
	return fmt.Sprintf("%T", fr)
}

// Reject is what Conn.dropEncryptionLevel(0-RTT) does as far as the framer is concerned: the streams map closes
// every stream (nothing left to send; the objects are forgotten), then framer.Handle0RTTRejection.
//
// The stream objects are forgotten on the control-frame side too: the stream that announces control frames under the
// same id afterwards is a NEW stub. A forgotten stub KEEPS the frames it has queued (closeForShutdown does not take a
// queued RESET_STREAM / STOP_SENDING / MAX_STREAM_DATA back): whether they are still sent is up to the framer - it is
// if Handle0RTTRejection leaves streamsWithControlFrames alone (the framer then still points to the old stub, and
// AddStreamWithControlFrames of the new one under the same id is a no-op).
func (v *VerifRstFramer) Reject() {
	for id, s := range v.streams {
		s.pending = 0
		delete(v.streams, id)
	}
	for id := range v.ctls {
		delete(v.ctls, id)
	}
	v.f.Handle0RTTRejection()
}

// Append calls the real framer.Append with room for everything that can be queued by a case. Stream-related control
// frames come out in map order: they are reported sorted, in front of the queued control frames.
func (v *VerifRstFramer) Append() (ctl []string, str []int64) {
	frames, sfs, _ := v.f.Append(nil, nil, 1200, monotime.Now(), protocol.Version1)
	var sc []string
	for _, fr := range frames {
		t := verifRstFrameTxt(fr.Frame)
		if strings.HasPrefix(t, "sc") {
			sc = append(sc, t)
		} else {
			ctl = append(ctl, t)
		}
	}
	sort.Slice(sc, func(i, j int) bool {
		if len(sc[i]) != len(sc[j]) {
			return len(sc[i]) < len(sc[j])
		}
		return sc[i] < sc[j]
	})
	ctl = append(sc, ctl...)
	for _, sf := range sfs {
		str = append(str, int64(sf.Frame.StreamID))
		sf.Frame.PutBack()
	}
	return
}

// HasData is the framer's own answer (only methods of the framer are used by this hook, none of its fields).
func (v *VerifRstFramer) HasData() bool { return v.f.HasData() }

// VerifDialSpecCopy: what newUClientConnection does with the caller's ClientHelloSpec for one connection whose
// source connection ID is scid: the per-dial copy, then - on the copy's transport parameter extension - suppress
// and PopulateFromUQUIC. Returns the transport parameters this connection would put into its ClientHello.
func VerifDialSpecCopy(chs *tls.ClientHelloSpec, scid []byte, suppress []uint64) tls.TransportParameters {
	c := cloneClientHelloSpecForDial(chs)
	if c == nil {
		return nil
	}
	for _, ext := range c.Extensions {
		if q, ok := ext.(*tls.QUICTransportParametersExtension); ok {
			params := &wire.TransportParameters{InitialSourceConnectionID: protocol.ParseConnectionID(scid)}
			SuppressQUICTransportParameters(q, suppress)
			params.PopulateFromUQUIC(q.TransportParameters)
			return q.TransportParameters
		}
	}
	return nil
}
