//go:build verif

package quic

import (
	"github.com/refraction-networking/uquic/internal/handshake"
	"github.com/refraction-networking/uquic/internal/monotime"
	"github.com/refraction-networking/uquic/internal/protocol"
	"github.com/refraction-networking/uquic/internal/wire"
)

// Add-only exporters of the unexported packet protection functions (property C05).

// VerifEncryptPacket is packetPacker.encryptPacket (the receiver is not used by the method).
func VerifEncryptPacket(raw []byte, s handshake.LongHeaderSealer, pn protocol.PacketNumber, payloadOffset, pnLen protocol.ByteCount) []byte {
	return (&packetPacker{}).encryptPacket(raw, s, pn, payloadOffset, pnLen)
}

// VerifUnpackLongHeaderPacket is packetUnpacker.unpackLongHeaderPacket.
func VerifUnpackLongHeaderPacket(opener handshake.LongHeaderOpener, hdr *wire.Header, data []byte) (*wire.ExtendedHeader, []byte, error) {
	return (&packetUnpacker{}).unpackLongHeaderPacket(opener, hdr, data)
}

// VerifUnpackShortHeaderPacket is packetUnpacker.unpackShortHeaderPacket.
func VerifUnpackShortHeaderPacket(opener handshake.ShortHeaderOpener, connIDLen int, rcvTime monotime.Time, data []byte) (protocol.PacketNumber, protocol.PacketNumberLen, protocol.KeyPhaseBit, []byte, error) {
	return (&packetUnpacker{shortHdrConnIDLen: connIDLen}).unpackShortHeaderPacket(opener, rcvTime, data)
}

// VerifIsHeaderParseError reports whether err is the unpacker's headerParseError.
func VerifIsHeaderParseError(err error) bool {
	_, ok := err.(*headerParseError)
	return ok
}

// verifPNManager hands appendInitialPacketPayload the packet number it expects to pop.
type verifPNManager struct{ pn protocol.PacketNumber }

func (m verifPNManager) PeekPacketNumber(protocol.EncryptionLevel) (protocol.PacketNumber, protocol.PacketNumberLen) {
	return m.pn, protocol.PacketNumberLen4
}
func (m verifPNManager) PopPacketNumber(protocol.EncryptionLevel) protocol.PacketNumber { return m.pn }

// VerifUInitialDatagram runs uPacketPacker.appendInitialPacketPayload (the uQUIC Initial serialisation
// glue) on a fresh packet buffer with the given sealer, a spec with one InitialPacketPlan{PacketSize}
// and UDPDatagramMinSize, and returns the datagram left in the buffer.
func VerifUInitialDatagram(s handshake.LongHeaderSealer, header *wire.ExtendedHeader, framePayload []byte, packetSize, udpMin int, v protocol.Version) ([]byte, error) {
	spec := &QUICSpec{UDPDatagramMinSize: udpMin}
	if packetSize > 0 {
		spec.InitialPacketSpec.InitialPackets = []InitialPacketPlan{{PacketSize: packetSize}}
	}
	p := &uPacketPacker{
		packetPacker: &packetPacker{pnManager: verifPNManager{pn: header.PacketNumber}},
		uSpec:        spec,
	}
	verifDirtyPacketBuffers()
	buffer := getPacketBuffer()
	defer buffer.Release()
	_, err := p.appendInitialPacketPayload(buffer, header, payload{}, append([]byte{}, framePayload...), 0, protocol.EncryptionInitial, s, v)
	if err != nil {
		return nil, err
	}
	return append([]byte{}, buffer.Data...), nil
}

// verifDirtyPacketBuffers: the next packet buffers taken from the pool by this goroutine are full of 0xa5.
func verifDirtyPacketBuffers() {
	bufs := make([]*packetBuffer, 0, 3)
	for i := 0; i < 3; i++ {
		b := getPacketBuffer()
		d := b.Data[:cap(b.Data)]
		for j := range d {
			d[j] = 0xa5
		}
		bufs = append(bufs, b)
	}
	for _, b := range bufs {
		b.Release()
	}
}
