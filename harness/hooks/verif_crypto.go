//go:build verif

package quic

import (
	"github.com/refraction-networking/uquic/internal/handshake"
	"github.com/refraction-networking/uquic/internal/monotime"
	"github.com/refraction-networking/uquic/internal/protocol"
	"github.com/refraction-networking/uquic/internal/wire"
)

// Add-only exporters of the unexported packet protection functions (property C05).

// VerifEncryptPacket is packetPacker.encryptPacket (the receiver is not used by the method).
func VerifEncryptPacket(raw []byte, s handshake.LongHeaderSealer, pn protocol.PacketNumber, payloadOffset, pnLen protocol.ByteCount) []byte {
	return (&packetPacker{}).encryptPacket(raw, s, pn, payloadOffset, pnLen)
}

// VerifUnpackLongHeaderPacket is packetUnpacker.unpackLongHeaderPacket.
func VerifUnpackLongHeaderPacket(opener handshake.LongHeaderOpener, hdr *wire.Header, data []byte) (*wire.ExtendedHeader, []byte, error) {
	return (&packetUnpacker{}).unpackLongHeaderPacket(opener, hdr, data)
}

// VerifUnpackShortHeaderPacket is packetUnpacker.unpackShortHeaderPacket.
func VerifUnpackShortHeaderPacket(opener handshake.ShortHeaderOpener, connIDLen int, rcvTime monotime.Time, data []byte) (protocol.PacketNumber, protocol.PacketNumberLen, protocol.KeyPhaseBit, []byte, error) {
	return (&packetUnpacker{shortHdrConnIDLen: connIDLen}).unpackShortHeaderPacket(opener, rcvTime, data)
}

// VerifIsHeaderParseError reports whether err is the unpacker's headerParseError.
func VerifIsHeaderParseError(err error) bool {
	_, ok := err.(*headerParseError)
	return ok
}
