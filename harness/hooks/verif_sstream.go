//go:build verif

package quic

import (
	"context"

	"github.com/refraction-networking/uquic/internal/ackhandler"
	"github.com/refraction-networking/uquic/internal/flowcontrol"
	"github.com/refraction-networking/uquic/internal/monotime"
	"github.com/refraction-networking/uquic/internal/protocol"
	"github.com/refraction-networking/uquic/internal/utils"
	"github.com/refraction-networking/uquic/internal/wire"
)

// Exporters for the C01 drivers (sstream / spair / dgq). Add-only, read-only accessors and
// thin wrappers around unexported constructors and methods; no behaviour is changed.

// VerifSender is a recording streamSender.
type VerifSender struct {
	OnConnData func()
	OnData     func(protocol.StreamID)
	OnCtrl     func(protocol.StreamID)
	OnDone     func(protocol.StreamID)
}

func (v *VerifSender) onHasConnectionData() {
	if v.OnConnData != nil {
		v.OnConnData()
	}
}
func (v *VerifSender) onHasStreamData(id protocol.StreamID, _ *SendStream) {
	if v.OnData != nil {
		v.OnData(id)
	}
}
func (v *VerifSender) onHasStreamControlFrame(id protocol.StreamID, _ streamControlFrameGetter) {
	if v.OnCtrl != nil {
		v.OnCtrl(id)
	}
}
func (v *VerifSender) onStreamCompleted(id protocol.StreamID) {
	if v.OnDone != nil {
		v.OnDone(id)
	}
}

func VerifNewSendStream(ctx context.Context, id protocol.StreamID, sender *VerifSender, fc flowcontrol.StreamFlowController, supportsResetStreamAt bool) *SendStream {
	return newSendStream(ctx, id, sender, fc, supportsResetStreamAt)
}

func VerifNewReceiveStream(id protocol.StreamID, sender *VerifSender, fc flowcontrol.StreamFlowController) *ReceiveStream {
	return newReceiveStream(id, sender, fc)
}

// VerifPop is popStreamFrame.
func (s *SendStream) VerifPop(maxBytes protocol.ByteCount, v protocol.Version) (ackhandler.StreamFrame, *wire.StreamDataBlockedFrame, bool) {
	return s.popStreamFrame(maxBytes, v)
}

func (s *SendStream) VerifGetControlFrame() (ackhandler.Frame, bool, bool) {
	return s.getControlFrame(monotime.Now())
}

func (s *SendStream) VerifHandleStopSending(code StreamErrorCode) {
	s.handleStopSendingFrame(&wire.StopSendingFrame{StreamID: s.streamID, ErrorCode: code})
}

func (s *SendStream) VerifCloseForShutdown(err error) { s.closeForShutdown(err) }

// VerifSendState is a snapshot of the fields the model mirrors (taken under the mutex).
type VerifSendState struct {
	WriteOffset, ReliableSize protocol.ByteCount
	NumOutstanding            int64
	RetransQ                  [][3]int64 // offset, len, fin
	NextFrame                 [2]int64   // offset, len (-1,-1 if nil)
	DataForWriting            int
	FinishedWriting, FinSent  bool
	CancellationFlagged       bool
	Completed, Shutdown       bool
	Reset                     bool
	QueuedReset               *wire.ResetStreamFrame
	Signal                    int
}

func (s *SendStream) VerifState() VerifSendState {
	s.mutex.Lock()
	defer s.mutex.Unlock()
	st := VerifSendState{
		WriteOffset: s.writeOffset, ReliableSize: s.reliableSize, NumOutstanding: s.numOutstandingFrames,
		NextFrame: [2]int64{-1, -1}, DataForWriting: len(s.dataForWriting),
		FinishedWriting: s.finishedWriting, FinSent: s.finSent, CancellationFlagged: s.cancellationFlagged,
		Completed: s.completed, Shutdown: s.shutdownErr != nil, Reset: s.resetErr != nil,
		Signal: len(s.writeChan),
	}
	for _, f := range s.retransmissionQueue {
		fin := int64(0)
		if f.Fin {
			fin = 1
		}
		st.RetransQ = append(st.RetransQ, [3]int64{int64(f.Offset), int64(f.DataLen()), fin})
	}
	if s.nextFrame != nil {
		st.NextFrame = [2]int64{int64(s.nextFrame.Offset), int64(s.nextFrame.DataLen())}
	}
	if s.queuedResetStreamFrame != nil {
		c := *s.queuedResetStreamFrame
		st.QueuedReset = &c
	}
	return st
}

// VerifHandleStreamFrame is ReceiveStream.handleStreamFrame.
func (s *ReceiveStream) VerifHandleStreamFrame(f *wire.StreamFrame) error {
	return s.handleStreamFrame(f, monotime.Now())
}

func (s *ReceiveStream) VerifHandleResetStreamFrame(f *wire.ResetStreamFrame) error {
	return s.handleResetStreamFrame(f, monotime.Now())
}

func (s *ReceiveStream) VerifCloseForShutdown(err error) { s.closeForShutdown(err) }

// VerifDatagramQueue wraps the unexported datagramQueue.
type VerifDatagramQueue struct{ q *datagramQueue }

func VerifNewDatagramQueue(hasData func()) *VerifDatagramQueue {
	return &VerifDatagramQueue{q: newDatagramQueue(hasData, utils.DefaultLogger)}
}
func (d *VerifDatagramQueue) Handle(f *wire.DatagramFrame)               { d.q.HandleDatagramFrame(f) }
func (d *VerifDatagramQueue) Receive(ctx context.Context) ([]byte, error) { return d.q.Receive(ctx) }
func (d *VerifDatagramQueue) Add(f *wire.DatagramFrame) error             { return d.q.Add(f) }
func (d *VerifDatagramQueue) Peek() *wire.DatagramFrame                   { return d.q.Peek() }
func (d *VerifDatagramQueue) Pop()                                        { d.q.Pop() }
func (d *VerifDatagramQueue) CloseWithError(err error)                    { d.q.CloseWithError(err) }
func (d *VerifDatagramQueue) RcvLen() int {
	d.q.rcvMx.Lock()
	defer d.q.rcvMx.Unlock()
	return len(d.q.rcvQueue)
}

const (
	VerifMaxDatagramRcvQueueLen  = maxDatagramRcvQueueLen
	VerifMaxDatagramSendQueueLen = maxDatagramSendQueueLen
)

// VerifRecoverMutex releases s.mutex if a panic inside OnAcked/OnLost left it locked (those paths
// unlock explicitly, not by defer). Only the harness calls this, after trapping such a panic.
func (s *SendStream) VerifRecoverMutex() {
	if s.mutex.TryLock() {
		s.mutex.Unlock()
		return
	}
	s.mutex.Unlock()
}

func (d *VerifDatagramQueue) SendLen() int {
	d.q.sendMx.Lock()
	defer d.q.sendMx.Unlock()
	return d.q.sendQueue.Len()
}
