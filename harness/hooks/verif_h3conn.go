//go:build verif

package quic

import (
	"context"
	"errors"

	"github.com/refraction-networking/uquic/internal/qerr"
)

// VerifStubConn returns a connection object that only records CloseWithError: its context is
// already done, so CloseWithError stores the error (first one wins, as on a live connection)
// and returns at once. Nothing else may be called on it.
func VerifStubConn() *Conn {
	ctx, cancel := context.WithCancel(context.Background())
	cancel()
	return &Conn{ctx: ctx}
}

// VerifCloseCode reports the application error code of the first CloseWithError.
func (c *Conn) VerifCloseCode() (uint64, bool) {
	ce := c.closeErr.Load()
	if ce == nil {
		return 0, false
	}
	var ae *qerr.ApplicationError
	if errors.As(ce.err, &ae) {
		return uint64(ae.ErrorCode), true
	}
	return ^uint64(0), true
}
