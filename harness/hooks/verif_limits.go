//go:build verif

package quic

import (
	"reflect"
	"time"

	"github.com/refraction-networking/uquic/internal/flowcontrol"
	"github.com/refraction-networking/uquic/internal/handshake"
	"github.com/refraction-networking/uquic/internal/protocol"
	"github.com/refraction-networking/uquic/internal/wire"
)

// VerifLimitsOwn is the connection's own record of the transport parameters it advertises (C12).
type VerifLimitsOwn struct {
	OK                             bool
	InitialMaxData                 int64
	InitialMaxStreamDataBidiLocal  int64
	InitialMaxStreamDataBidiRemote int64
	InitialMaxStreamDataUni        int64
	MaxBidiStreamNum               int64
	MaxUniStreamNum                int64
	ActiveConnectionIDLimit        uint64
	MaxDatagramFrameSize           int64
	MaxIdleTimeout                 time.Duration
	MaxUDPPayloadSize              int64
	MaxAckDelay                    time.Duration
	AckDelayExponent               uint8
	DisableActiveMigration         bool
	InitialSourceConnectionID      []byte
	// Wire is what Marshal(client) produces for this record: for a spec-driven client the cached
	// ClientOverride bytes (= uTLS's marshalling of the spec's parameter list).
	Wire []byte
}

// VerifLimitsEnforced is what the connection's components enforce against the peer (C12), read
// from the components themselves.
type VerifLimitsEnforced struct {
	ConnWindow, ConnWindowMax                   int64 // connection flow controller: receive window and cap of its size
	StreamWindowBidiLocal, StreamWindowBidiRemote int64 // receive window a new stream of that kind starts with
	StreamWindowUni                             int64 // (bidi local = opened by this endpoint)
	StreamWindowMax                             int64 // cap of the window size of a bidi-local stream …
	StreamWindowMaxBidiRemote, StreamWindowMaxUni int64 // … of a bidi-remote / unidirectional stream
	MaxIncomingBidi, MaxIncomingUni             uint64 // incoming stream count limits given to the streams map
	ConnIDLimit                                 uint64 // bound on the connIDManager's queue: max(MaxActiveConnectionIDs, connIDLimit)
	Datagrams                                   bool   // frame parser accepts DATAGRAM frames
	IdleTimeout                                 time.Duration // c.idleTimeout (set by applyTransportParameters)
	ConfigIdleTimeout                           time.Duration
	HaveStreamWindows                           bool
}

// VerifLimitsOwnParams reads the record from the crypto setup the connection was built with.
func VerifLimitsOwnParams(c *Conn) VerifLimitsOwn {
	p := handshake.VerifLimitsOurParams(c.cryptoStreamHandler)
	if p == nil {
		return VerifLimitsOwn{}
	}
	return VerifLimitsOwn{
		OK:                             true,
		InitialMaxData:                 int64(p.InitialMaxData),
		InitialMaxStreamDataBidiLocal:  int64(p.InitialMaxStreamDataBidiLocal),
		InitialMaxStreamDataBidiRemote: int64(p.InitialMaxStreamDataBidiRemote),
		InitialMaxStreamDataUni:        int64(p.InitialMaxStreamDataUni),
		MaxBidiStreamNum:               int64(p.MaxBidiStreamNum),
		MaxUniStreamNum:                int64(p.MaxUniStreamNum),
		ActiveConnectionIDLimit:        p.ActiveConnectionIDLimit,
		MaxDatagramFrameSize:           int64(p.MaxDatagramFrameSize),
		MaxIdleTimeout:                 p.MaxIdleTimeout,
		MaxUDPPayloadSize:              int64(p.MaxUDPPayloadSize),
		MaxAckDelay:                    p.MaxAckDelay,
		AckDelayExponent:               p.AckDelayExponent,
		DisableActiveMigration:         p.DisableActiveMigration,
		InitialSourceConnectionID:      append([]byte(nil), p.InitialSourceConnectionID.Bytes()...),
		Wire:                           append([]byte(nil), p.Marshal(protocol.PerspectiveClient)...),
	}
}

// VerifLimitsEnforcedNow reads the enforced limits. Call it when the connection's run loop is
// quiescent (inside a synctest bubble after synctest.Wait); the stream windows need the peer's
// transport parameters (after the handshake).
func VerifLimitsEnforcedNow(c *Conn) VerifLimitsEnforced {
	var e VerifLimitsEnforced
	w, _, m, _ := flowcontrol.VerifLimitsReceiveWindow(c.connFlowController)
	e.ConnWindow, e.ConnWindowMax = w, m
	if c.peerParams != nil {
		e.HaveStreamWindows = true
		// stream IDs: client-initiated bidi 0, server-initiated bidi 1, client uni 2, server uni 3
		local, remote, uni := protocol.StreamID(0), protocol.StreamID(1), protocol.StreamID(3)
		if c.perspective == protocol.PerspectiveServer {
			local, remote, uni = 1, 0, 2
		}
		e.StreamWindowBidiLocal, _, e.StreamWindowMax, _ = flowcontrol.VerifLimitsReceiveWindow(c.newFlowController(local))
		e.StreamWindowBidiRemote, _, e.StreamWindowMaxBidiRemote, _ = flowcontrol.VerifLimitsReceiveWindow(c.newFlowController(remote))
		e.StreamWindowUni, _, e.StreamWindowMaxUni, _ = flowcontrol.VerifLimitsReceiveWindow(c.newFlowController(uni))
	}
	e.MaxIncomingBidi = c.streamsMap.maxIncomingBidiStreams
	e.MaxIncomingUni = c.streamsMap.maxIncomingUniStreams
	// the bound connIDManager.Add checks its queue against: max(MaxActiveConnectionIDs, connIDLimit).
	// Read by reflection so that this hook still compiles when the field does not exist (the exercise
	// `ex cids` is the behavioural check).
	e.ConnIDLimit = protocol.MaxActiveConnectionIDs
	if f := reflect.ValueOf(c.connIDManager).Elem().FieldByName("connIDLimit"); f.IsValid() && f.CanUint() {
		e.ConnIDLimit = max(e.ConnIDLimit, f.Uint())
	}
	e.Datagrams = c.frameParser.VerifLimitsSupportsDatagrams()
	e.IdleTimeout = c.idleTimeout
	e.ConfigIdleTimeout = c.config.MaxIdleTimeout
	return e
}

var _ = wire.MaxDatagramSize
