//go:build verif

package quic

import (
	"github.com/refraction-networking/uquic/internal/handshake"
	"github.com/refraction-networking/uquic/internal/protocol"
	"github.com/refraction-networking/uquic/internal/wire"
)

// Read-only accessors for the C13 correspondence driver (harness/drivers/gate). Add-only; nothing here
// changes behaviour. All of them are meant to be called while the connection's run loop is durably
// blocked (inside a testing/synctest bubble after synctest.Wait), so no locking is attempted beyond the
// transport mutex.

// VerifGateState is the part of a connection's state the C13 gate model talks about.
type VerifGateState struct {
	Client              bool
	Version             uint32
	Supported           []uint32
	ReceivedFirstPacket bool
	ReceivedRetry       bool
	VersionNegotiated   bool
	HandshakeDestConnID []byte
	OrigDestConnID      []byte
	RetrySrcConnID      []byte
	HasRetrySrcConnID   bool
	DestConnID          []byte // connIDManager's active connection ID
	Undecryptable       int
	HandshakeComplete   bool
	Closed              bool
	SrcConnIDLen        int
	// timer inputs (monotime nanoseconds)
	CreationTime           int64
	LastPacketReceivedTime int64
	FirstAckElicitingSent  int64
	IdleStart              int64
	HandshakeIdleTimeout   int64
	HandshakeTimeout       int64
	KeepAlivePeriod        int64
}

func (c *Conn) VerifGateState() VerifGateState {
	s := VerifGateState{
		Client:                 c.perspective.String() == "client",
		Version:                uint32(c.version),
		ReceivedFirstPacket:    c.receivedFirstPacket,
		ReceivedRetry:          c.receivedRetry,
		VersionNegotiated:      c.versionNegotiated,
		HandshakeDestConnID:    append([]byte{}, c.handshakeDestConnID.Bytes()...),
		OrigDestConnID:         append([]byte{}, c.origDestConnID.Bytes()...),
		DestConnID:             append([]byte{}, c.connIDManager.activeConnectionID.Bytes()...),
		Undecryptable:          len(c.undecryptablePackets),
		HandshakeComplete:      c.handshakeComplete,
		Closed:                 c.ctx.Err() != nil,
		SrcConnIDLen:           c.srcConnIDLen,
		CreationTime:           int64(c.creationTime),
		LastPacketReceivedTime: int64(c.lastPacketReceivedTime),
		FirstAckElicitingSent:  int64(c.firstAckElicitingPacketAfterIdleSentTime),
		IdleStart:              int64(c.idleTimeoutStartTime()),
		HandshakeIdleTimeout:   int64(c.config.HandshakeIdleTimeout),
		HandshakeTimeout:       int64(c.config.handshakeTimeout()),
		KeepAlivePeriod:        int64(c.config.KeepAlivePeriod),
	}
	for _, v := range c.config.Versions {
		s.Supported = append(s.Supported, uint32(v))
	}
	if c.retrySrcConnID != nil {
		s.HasRetrySrcConnID = true
		s.RetrySrcConnID = append([]byte{}, c.retrySrcConnID.Bytes()...)
	}
	return s
}

func verifConnOf(h packetHandler) *Conn {
	switch x := h.(type) {
	case *wrappedConn:
		return x.Conn
	case *Conn:
		return x
	}
	return nil
}

// VerifRoute returns the live connection Transport.handlePacket would hand this datagram to
// (nil: no handler, a closed-connection handler, or not parseable).
func (t *Transport) VerifRoute(data []byte) *Conn {
	if len(data) == 0 {
		return nil
	}
	if !wire.IsPotentialQUICPacket(data[0]) && !wire.IsLongHeaderPacket(data[0]) {
		return nil
	}
	t.mutex.Lock()
	defer t.mutex.Unlock()
	connID, err := wire.ParseConnectionID(data, t.connIDLen)
	if err != nil {
		return nil
	}
	h, ok := t.handlers[connID]
	if !ok {
		return nil
	}
	return verifConnOf(h)
}

// VerifLiveConns lists the connections (not closed-connection placeholders) the transport still routes to.
func (t *Transport) VerifLiveConns() []*Conn {
	t.mutex.Lock()
	defer t.mutex.Unlock()
	var out []*Conn
	seen := map[*Conn]bool{}
	for _, h := range t.handlers {
		if c := verifConnOf(h); c != nil && !seen[c] {
			seen[c] = true
			out = append(out, c)
		}
	}
	return out
}

// VerifHandlerCount is the number of entries (connection IDs) in the transport's handler map,
// including closed-connection placeholders, and the number of stateless-reset tokens registered.
func (t *Transport) VerifHandlerCount() (handlers, resetTokens int) {
	t.mutex.Lock()
	defer t.mutex.Unlock()
	return len(t.handlers), len(t.resetTokens)
}

func verifKeyErr(err error) string {
	switch err {
	case nil:
		return "avail"
	case handshake.ErrKeysDropped:
		return "dropped"
	case handshake.ErrKeysNotYetAvailable:
		return "notyet"
	}
	return "other"
}

// VerifKeys reports what the crypto setup answers right now when asked for the opener of each level
// (the `keys` input of the gate model).
func (c *Conn) VerifKeys() (initial, hs, oneRTT, zeroRTT string) {
	cs, ok := c.cryptoStreamHandler.(handshake.CryptoSetup)
	if !ok {
		return "other", "other", "other", "other"
	}
	_, e1 := cs.GetInitialOpener()
	_, e2 := cs.GetHandshakeOpener()
	_, e3 := cs.Get1RTTOpener()
	_, e4 := cs.Get0RTTOpener()
	return verifKeyErr(e1), verifKeyErr(e2), verifKeyErr(e3), verifKeyErr(e4)
}

// VerifTryOpenLong says whether the AEAD of the packet's level opens this long-header packet (one
// part of a datagram, as wire.ParsePacket returns it) with the keys installed right now: the `opens`
// input of the gate model, computed by the real packet protection on a copy of the bytes.
// known=false: no keys for that level at the moment (or not an Initial/Handshake packet).
func (c *Conn) VerifTryOpenLong(part []byte) (opened, known bool) {
	cs, ok := c.cryptoStreamHandler.(handshake.CryptoSetup)
	if !ok {
		return false, false
	}
	data := append([]byte(nil), part...)
	hdr, _, _, err := wire.ParsePacket(data)
	if err != nil {
		return false, false
	}
	var opener handshake.LongHeaderOpener
	switch hdr.Type {
	case protocol.PacketTypeInitial:
		opener, err = cs.GetInitialOpener()
	case protocol.PacketTypeHandshake:
		opener, err = cs.GetHandshakeOpener()
	case protocol.PacketType0RTT:
		opener, err = cs.Get0RTTOpener()
	default:
		return false, false
	}
	if err != nil {
		return false, false
	}
	extHdr, perr := unpackLongHeader(opener, hdr, data)
	if perr != nil && perr != wire.ErrInvalidReservedBits {
		return false, true
	}
	n := extHdr.ParsedLen()
	pn := opener.DecodePacketNumber(extHdr.PacketNumber, extHdr.PacketNumberLen)
	_, err = handshake.VerifPeekOpen(opener, data[n:n], data[n:], pn, data[:n])
	return err == nil, true
}

// VerifZeroRTTLedger: 0-RTT packets (and their bytes in flight) still tracked by loss recovery; -1 when the
// sent-packet handler does not expose it.
func (c *Conn) VerifZeroRTTLedger() (packets int, bytesInFlight int64) {
	if h, ok := c.sentPacketHandler.(interface{ VerifZeroRTTLedger() (int, int64) }); ok {
		return h.VerifZeroRTTLedger()
	}
	return -1, -1
}

// VerifCheckCIDParams runs the real checkTransportParameters of this connection on transport parameters
// carrying the given connection IDs (rsc == nil: retry_source_connection_id absent) and returns its error.
func (c *Conn) VerifCheckCIDParams(isc, odc []byte, rsc []byte, hasRSC bool) error {
	p := &wire.TransportParameters{
		InitialSourceConnectionID:       protocol.ParseConnectionID(isc),
		OriginalDestinationConnectionID: protocol.ParseConnectionID(odc),
	}
	if hasRSC {
		r := protocol.ParseConnectionID(rsc)
		p.RetrySourceConnectionID = &r
	}
	return c.checkTransportParameters(p)
}
