//go:build verif

package quic

import (
	"time"

	"github.com/refraction-networking/uquic/internal/ackhandler"
	"github.com/refraction-networking/uquic/internal/monotime"
	"github.com/refraction-networking/uquic/internal/utils"
)

// C01 ctimer driver: call the REAL Conn.maybeResetTimer on a connection that is built only as far as that
// function reads it. Nothing else of the connection is started.

// VerifTimerInput: every time is given as an offset from "now" in milliseconds; for the three optional
// deadlines (ack alarm, loss detection, pacing) Has* says whether the deadline is set at all.
type VerifTimerInput struct {
	HandshakeComplete bool
	Blocked           int // 0 none, 1 congestion limited, 2 hard blocked
	CreatedMs         int64
	LastRecvMs        int64
	FirstAEMs         int64 // firstAckElicitingPacketAfterIdleSentTime
	HasFirstAE        bool
	IdleTimeoutMs     int64
	HsIdleTimeoutMs   int64
	KeepAlivePeriodMs int64
	KeepAlivePingSent bool
	KeepAliveIntervalMs int64
	HasAckAlarm       bool
	AckAlarmMs        int64
	HasLoss           bool
	LossMs            int64
	HasPacing         bool
	PacingMs          int64
}

type verifSPH struct {
	ackhandler.SentPacketHandler
	loss monotime.Time
}

func (s *verifSPH) GetLossDetectionTimeout() monotime.Time { return s.loss }

// VerifPTOms is rttStats.PTO(true) of a fresh connection, in ms.
func VerifPTOms() int64 { return utils.NewRTTStats().PTO(true).Milliseconds() }

// VerifMaybeResetTimer builds the connection state, calls maybeResetTimer and returns the timer it armed.
func VerifMaybeResetTimer(in VerifTimerInput) *time.Timer {
	now := monotime.Now()
	at := func(ms int64) monotime.Time { return now.Add(time.Duration(ms) * time.Millisecond) }
	c := &Conn{
		config: &Config{
			HandshakeIdleTimeout: time.Duration(in.HsIdleTimeoutMs) * time.Millisecond,
			KeepAlivePeriod:      time.Duration(in.KeepAlivePeriodMs) * time.Millisecond,
		},
		rttStats:               utils.NewRTTStats(),
		handshakeComplete:      in.HandshakeComplete,
		blocked:                blockMode(in.Blocked),
		idleTimeout:            time.Duration(in.IdleTimeoutMs) * time.Millisecond,
		creationTime:           at(in.CreatedMs),
		lastPacketReceivedTime: at(in.LastRecvMs),
		keepAlivePingSent:      in.KeepAlivePingSent,
		keepAliveInterval:      time.Duration(in.KeepAliveIntervalMs) * time.Millisecond,
		timer:                  time.NewTimer(time.Hour),
	}
	if in.HasFirstAE {
		c.firstAckElicitingPacketAfterIdleSentTime = at(in.FirstAEMs)
	}
	c.receivedPacketHandler = *ackhandler.NewReceivedPacketHandler(utils.DefaultLogger)
	if in.HasAckAlarm {
		c.receivedPacketHandler.VerifSetAckAlarm(at(in.AckAlarmMs))
	}
	sph := &verifSPH{}
	if in.HasLoss {
		sph.loss = at(in.LossMs)
	}
	c.sentPacketHandler = sph
	if in.HasPacing {
		c.pacingDeadline = at(in.PacingMs)
	}
	c.maybeResetTimer()
	return c.timer
}
