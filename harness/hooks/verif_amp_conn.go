//go:build verif

package quic

import "github.com/refraction-networking/uquic/internal/ackhandler"

// VerifAmpServerConnStates reports the anti-amplification accounting of the live connections registered in
// the transport's handler map (read only, C14; meant to be called inside a synctest bubble after
// synctest.Wait, when no connection goroutine is running). n is the number of distinct connections; the
// counters are summed over them.
func VerifAmpServerConnStates(t *Transport) (n int, bytesSent, bytesReceived int64, allValidated bool) {
	t.mutex.Lock()
	defer t.mutex.Unlock()
	seen := map[*Conn]bool{}
	allValidated = true
	for _, h := range t.handlers {
		var c *Conn
		switch v := h.(type) {
		case *wrappedConn:
			c = v.Conn
		case *Conn:
			c = v
		}
		if c == nil || seen[c] || c.sentPacketHandler == nil {
			continue
		}
		seen[c] = true
		s, r, v := ackhandler.VerifAmpState(c.sentPacketHandler)
		n++
		bytesSent += int64(s)
		bytesReceived += int64(r)
		allValidated = allValidated && v
	}
	return
}

// VerifAmpServerConnPackets: sum of the exported ConnectionStats().PacketsReceived over the same live connections
// (the counter the sent packet handler's ReceivedPacket increments: one per packet the connection ACCEPTED).
func VerifAmpServerConnPackets(t *Transport) (pkts uint64) {
	t.mutex.Lock()
	defer t.mutex.Unlock()
	seen := map[*Conn]bool{}
	for _, h := range t.handlers {
		var c *Conn
		switch v := h.(type) {
		case *wrappedConn:
			c = v.Conn
		case *Conn:
			c = v
		}
		if c == nil || seen[c] || c.sentPacketHandler == nil {
			continue
		}
		seen[c] = true
		pkts += c.ConnectionStats().PacketsReceived
	}
	return
}
