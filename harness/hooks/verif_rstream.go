//go:build verif

package quic

import (
	"fmt"
	"time"

	"github.com/refraction-networking/uquic/internal/flowcontrol"
	"github.com/refraction-networking/uquic/internal/monotime"
	"github.com/refraction-networking/uquic/internal/protocol"
	"github.com/refraction-networking/uquic/internal/qerr"
	"github.com/refraction-networking/uquic/internal/utils"
	"github.com/refraction-networking/uquic/internal/wire"
)

// Exporters for the verification harness (property C03): a real ReceiveStream with the real stream
// and connection flow controllers; the calls made on the flow controller and on the streamSender are
// recorded. Add-only; no behaviour is changed.

type verifRecFC struct {
	flowcontrol.StreamFlowController
	log *[]string
}

func b01(b bool) int {
	if b {
		return 1
	}
	return 0
}

func (f *verifRecFC) UpdateHighestReceived(off protocol.ByteCount, final bool, now monotime.Time) error {
	*f.log = append(*f.log, fmt.Sprintf("U%d.%d", off, b01(final)))
	return f.StreamFlowController.UpdateHighestReceived(off, final, now)
}

func (f *verifRecFC) AddBytesRead(n protocol.ByteCount) (bool, bool) {
	*f.log = append(*f.log, fmt.Sprintf("R%d", n))
	return f.StreamFlowController.AddBytesRead(n)
}

func (f *verifRecFC) Abandon() {
	*f.log = append(*f.log, "A")
	f.StreamFlowController.Abandon()
}

func (f *verifRecFC) GetWindowUpdate(now monotime.Time) protocol.ByteCount {
	*f.log = append(*f.log, "W")
	return f.StreamFlowController.GetWindowUpdate(now)
}

type verifRecSender struct{ log *[]string }

func (s *verifRecSender) onHasConnectionData()                            { *s.log = append(*s.log, "D") }
func (s *verifRecSender) onHasStreamData(protocol.StreamID, *SendStream)  { *s.log = append(*s.log, "S") }
func (s *verifRecSender) onHasStreamControlFrame(protocol.StreamID, streamControlFrameGetter) {
	*s.log = append(*s.log, "H")
}
func (s *verifRecSender) onStreamCompleted(protocol.StreamID) { *s.log = append(*s.log, "C") }

type VerifRStream struct {
	s   *ReceiveStream
	log []string
}

// VerifNewRStream must be called inside the synctest bubble that later uses the stream.
func VerifNewRStream(window, connWindow int64) *VerifRStream {
	v := &VerifRStream{}
	rtt := &utils.RTTStats{}
	cfc := flowcontrol.NewConnectionFlowController(protocol.ByteCount(connWindow), protocol.ByteCount(connWindow),
		func(protocol.ByteCount) bool { return true }, rtt, utils.DefaultLogger)
	sfc := flowcontrol.NewStreamFlowController(4, cfc, protocol.ByteCount(window), protocol.ByteCount(window), 0, rtt, utils.DefaultLogger)
	v.s = newReceiveStream(4, &verifRecSender{log: &v.log}, &verifRecFC{StreamFlowController: sfc, log: &v.log})
	return v
}

// Events returns and clears the recorded flow-controller / sender calls.
func (v *VerifRStream) Events() []string {
	l := v.log
	v.log = nil
	return l
}

func (v *VerifRStream) HandleStreamFrame(f *wire.StreamFrame) error {
	return v.s.handleStreamFrame(f, monotime.Now())
}

func (v *VerifRStream) HandleReset(finalSize, reliableSize int64, code uint64) error {
	return v.s.handleResetStreamFrame(&wire.ResetStreamFrame{StreamID: 4, ErrorCode: qerr.StreamErrorCode(code),
		FinalSize: protocol.ByteCount(finalSize), ReliableSize: protocol.ByteCount(reliableSize)}, monotime.Now())
}

// Read / Peek run with a deadline one (virtual) second ahead: they return what is available or
// errDeadline when they would block.
func (v *VerifRStream) Read(p []byte) (int, error) {
	v.s.SetReadDeadline(time.Now().Add(time.Second))
	return v.s.Read(p)
}

func (v *VerifRStream) Peek(p []byte) (int, error) {
	v.s.SetReadDeadline(time.Now().Add(time.Second))
	return v.s.Peek(p)
}

func VerifIsDeadline(err error) bool { return err == errDeadline }

func (v *VerifRStream) CancelRead(code uint64)       { v.s.CancelRead(StreamErrorCode(code)) }
func (v *VerifRStream) CloseForShutdown(err error)   { v.s.closeForShutdown(err) }

// GetControlFrame: kind "none" | "ss" (STOP_SENDING code) | "msd" (MAX_STREAM_DATA value).
func (v *VerifRStream) GetControlFrame() (kind string, val uint64, hasMore bool) {
	f, ok, more := v.s.getControlFrame(monotime.Now())
	if !ok {
		return "none", 0, false
	}
	switch fr := f.Frame.(type) {
	case *wire.StopSendingFrame:
		return "ss", uint64(fr.ErrorCode), more
	case *wire.MaxStreamDataFrame:
		return "msd", uint64(fr.MaximumStreamData), more
	}
	return "other", 0, more
}
