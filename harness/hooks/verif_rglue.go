//go:build verif

package quic

// Exporter for the C03 glue driver (rglue). Add-only; injected by -overlay together with
// verif_sglue.go (VerifGlueConn: a connection built by the real constructors whose 1-RTT packets go
// through the real Conn.handleShortHeaderPacket). Everything else the driver does goes through the
// public API of Conn / Stream / ReceiveStream (OpenStream, AcceptStream, AcceptUniStream, Read,
// SetReadDeadline).

import "github.com/refraction-networking/uquic/internal/handshake"

// AdvertisedWindows returns the receive windows of the transport parameters handed to the TLS stack
// (initial_max_stream_data_bidi_local / _bidi_remote / _uni and initial_max_data): what the peer is told
// it may send. Read only.
func (v *VerifGlueConn) AdvertisedWindows() (bidiLocal, bidiRemote, uni, conn int64, ok bool) {
	tp := handshake.VerifLocalParams(v.C.cryptoStreamHandler)
	if tp == nil {
		return 0, 0, 0, 0, false
	}
	return int64(tp.InitialMaxStreamDataBidiLocal), int64(tp.InitialMaxStreamDataBidiRemote),
		int64(tp.InitialMaxStreamDataUni), int64(tp.InitialMaxData), true
}
