//go:build verif

package quic

import (
	"context"
	"sync"

	"github.com/refraction-networking/uquic/internal/handshake"
	"github.com/refraction-networking/uquic/internal/protocol"
	"github.com/refraction-networking/uquic/internal/utils"
	"github.com/refraction-networking/uquic/qlogwriter"
	tls "github.com/refraction-networking/utls"
)

// The C11 driver needs the ClientOverride bytes of the connection a UTransport dial creates (the
// connection's own record of its transport parameters). newUClientConnection is a package variable; this
// add-only hook wraps it and remembers the bytes of the most recent connection. Nothing else changes.
var verifOwn struct {
	mu       sync.Mutex
	override []byte
	set      bool
}

func init() {
	orig := newUClientConnection
	newUClientConnection = func(
		ctx context.Context,
		conn sendConn,
		runner connRunner,
		destConnID protocol.ConnectionID,
		srcConnID protocol.ConnectionID,
		connIDGenerator ConnectionIDGenerator,
		statelessResetter *statelessResetter,
		conf *Config,
		tlsConf *tls.Config,
		initialPacketNumber protocol.PacketNumber,
		enable0RTT bool,
		hasNegotiatedVersion bool,
		qlogTrace qlogwriter.Trace,
		logger utils.Logger,
		v protocol.Version,
		uSpec *QUICSpec,
	) *wrappedConn {
		c := orig(ctx, conn, runner, destConnID, srcConnID, connIDGenerator, statelessResetter, conf, tlsConf,
			initialPacketNumber, enable0RTT, hasNegotiatedVersion, qlogTrace, logger, v, uSpec)
		if c != nil && c.Conn != nil {
			if tp := handshake.VerifOurParams(c.cryptoStreamHandler); tp != nil {
				verifOwn.mu.Lock()
				verifOwn.override = append([]byte{}, tp.ClientOverride...)
				verifOwn.set = true
				verifOwn.mu.Unlock()
			}
		}
		return c
	}
}

// VerifTakeOwnOverride returns and clears the ClientOverride of the most recently created uQUIC client
// connection.
func VerifTakeOwnOverride() ([]byte, bool) {
	verifOwn.mu.Lock()
	defer verifOwn.mu.Unlock()
	b, ok := verifOwn.override, verifOwn.set
	verifOwn.override, verifOwn.set = nil, false
	return b, ok
}
