//go:build verif

package quic

import (
	"context"
	"fmt"
	"runtime"
	"strings"
	"sync"

	"github.com/refraction-networking/uquic/internal/handshake"
	"github.com/refraction-networking/uquic/internal/monotime"
	"github.com/refraction-networking/uquic/internal/protocol"
	"github.com/refraction-networking/uquic/internal/qerr"
	"github.com/refraction-networking/uquic/internal/utils"
	"github.com/refraction-networking/uquic/qlogwriter"
	tls "github.com/refraction-networking/utls"
)

// The C11 driver needs the ClientOverride bytes of the connection a UTransport dial creates (the
// connection's own record of its transport parameters). newUClientConnection is a package variable; this
// add-only hook wraps it and remembers the bytes of the most recent connection. Nothing else changes.
var verifOwn struct {
	mu       sync.Mutex
	override []byte
	set      bool
}

func init() {
	orig := newUClientConnection
	newUClientConnection = func(
		ctx context.Context,
		conn sendConn,
		runner connRunner,
		destConnID protocol.ConnectionID,
		srcConnID protocol.ConnectionID,
		connIDGenerator ConnectionIDGenerator,
		statelessResetter *statelessResetter,
		conf *Config,
		tlsConf *tls.Config,
		initialPacketNumber protocol.PacketNumber,
		enable0RTT bool,
		hasNegotiatedVersion bool,
		qlogTrace qlogwriter.Trace,
		logger utils.Logger,
		v protocol.Version,
		uSpec *QUICSpec,
	) *wrappedConn {
		c := orig(ctx, conn, runner, destConnID, srcConnID, connIDGenerator, statelessResetter, conf, tlsConf,
			initialPacketNumber, enable0RTT, hasNegotiatedVersion, qlogTrace, logger, v, uSpec)
		if c != nil && c.Conn != nil {
			if tp := handshake.VerifOurParams(c.cryptoStreamHandler); tp != nil {
				verifOwn.mu.Lock()
				verifOwn.override = append([]byte{}, tp.ClientOverride...)
				verifOwn.set = true
				verifOwn.mu.Unlock()
			}
			// tap (read only): remember what the TLS stack hands over for the Initial CRYPTO stream
			rec := &VerifCHRec{Version: uint32(v), SrcConnID: append([]byte{}, srcConnID.Bytes()...)}
			verifCH.mu.Lock()
			if len(verifCH.recs) >= 64 { // nobody is taking them (another driver): keep the list short
				verifCH.recs = verifCH.recs[1:]
			}
			verifCH.recs = append(verifCH.recs, rec)
			verifCH.mu.Unlock()
			c.cryptoStreamHandler = &verifCHTap{cryptoStreamHandler: c.cryptoStreamHandler, rec: rec}
			verifGuard.mu.Lock()
			guard := verifGuard.on
			verifGuard.mu.Unlock()
			if guard {
				c.packer = &verifPackerGuard{packer: c.packer}
			}
		}
		return c
	}
}

// VerifTakeOwnOverride returns and clears the ClientOverride of the most recently created uQUIC client
// connection.
func VerifTakeOwnOverride() ([]byte, bool) {
	verifOwn.mu.Lock()
	defer verifOwn.mu.Unlock()
	b, ok := verifOwn.override, verifOwn.set
	verifOwn.override, verifOwn.set = nil, false
	return b, ok
}

// VerifCHRec is what the TLS stack of ONE uQUIC client connection handed over for the Initial CRYPTO stream, in
// order (EventWriteInitialData events: the ClientHello; a second ClientHello after a HelloRetryRequest). It is
// taken where the connection reads the events, i.e. BEFORE the crypto stream, the frame builders and the packer.
type VerifCHRec struct {
	Version   uint32
	SrcConnID []byte
	Writes    [][]byte
}

var verifCH struct {
	mu   sync.Mutex
	recs []*VerifCHRec
}

// verifCHTap forwards every call to the connection's real crypto setup; NextEvent copies Initial-level data.
type verifCHTap struct {
	cryptoStreamHandler
	rec *VerifCHRec
}

func (t *verifCHTap) NextEvent() handshake.Event {
	ev := t.cryptoStreamHandler.NextEvent()
	if ev.Kind == handshake.EventWriteInitialData {
		verifCH.mu.Lock()
		t.rec.Writes = append(t.rec.Writes, append([]byte{}, ev.Data...))
		verifCH.mu.Unlock()
	}
	return ev
}

// VerifTakeCH returns (copies of) the records of all uQUIC client connections created since the last call.
func VerifTakeCH() []VerifCHRec {
	verifCH.mu.Lock()
	defer verifCH.mu.Unlock()
	out := make([]VerifCHRec, 0, len(verifCH.recs))
	for _, r := range verifCH.recs {
		c := VerifCHRec{Version: r.Version, SrcConnID: r.SrcConnID}
		for _, w := range r.Writes {
			c.Writes = append(c.Writes, append([]byte{}, w...))
		}
		out = append(out, c)
	}
	verifCH.recs = nil
	return out
}

// ---- packer guard (opt-in, for end-to-end drivers that run many connections in ONE process) ----
// A panic inside the packer happens on the connection's run goroutine and would take the whole driver process
// down, so that the driver could not even report it. With VerifGuardPacker(true), connections created afterwards
// get a forwarding wrapper around Conn.packer that turns such a panic into (a) a recorded observation (panic
// value + the two innermost uquic functions) and (b) an error return, which closes the connection.

var verifGuard struct {
	mu     sync.Mutex
	on     bool
	panics []string
}

func VerifGuardPacker(on bool) {
	verifGuard.mu.Lock()
	verifGuard.on = on
	verifGuard.mu.Unlock()
}

// VerifTakePackerPanics returns and clears the recorded packer panics: `<fn><<caller>:<panic value>`.
func VerifTakePackerPanics() []string {
	verifGuard.mu.Lock()
	defer verifGuard.mu.Unlock()
	out := verifGuard.panics
	verifGuard.panics = nil
	return out
}

type verifPackerGuard struct{ packer }

func (g *verifPackerGuard) caught(where string, e any, err *error) {
	var fns []string
	pcs := make([]uintptr, 64)
	n := runtime.Callers(2, pcs)
	frames := runtime.CallersFrames(pcs[:n])
	inPanic := false
	for {
		fr, more := frames.Next()
		if strings.HasPrefix(fr.Function, "runtime.") {
			inPanic = true
		} else if inPanic && strings.Contains(fr.Function, "/uquic.") && !strings.Contains(fr.Function, "verifPackerGuard") {
			name := fr.Function[strings.LastIndex(fr.Function, ".")+1:]
			fns = append(fns, name)
			if len(fns) == 2 {
				break
			}
		}
		if !more {
			break
		}
	}
	msg := strings.Map(func(r rune) rune {
		if r == ' ' || r == '\t' || r == '\n' || r == ';' || r == '|' || r == ',' {
			return '_'
		}
		return r
	}, fmt.Sprint(e))
	verifGuard.mu.Lock()
	verifGuard.panics = append(verifGuard.panics, strings.Join(fns, "<")+":"+msg)
	verifGuard.mu.Unlock()
	*err = fmt.Errorf("verif: panic in %s: %v", where, e)
}

func (g *verifPackerGuard) PackCoalescedPacket(onlyAck bool, max protocol.ByteCount, now monotime.Time, v protocol.Version) (cp *coalescedPacket, err error) {
	defer func() {
		if e := recover(); e != nil {
			cp = nil
			g.caught("PackCoalescedPacket", e, &err)
		}
	}()
	return g.packer.PackCoalescedPacket(onlyAck, max, now, v)
}

func (g *verifPackerGuard) PackPTOProbePacket(l protocol.EncryptionLevel, max protocol.ByteCount, addPing bool, now monotime.Time, v protocol.Version) (cp *coalescedPacket, err error) {
	defer func() {
		if e := recover(); e != nil {
			cp = nil
			g.caught("PackPTOProbePacket", e, &err)
		}
	}()
	return g.packer.PackPTOProbePacket(l, max, addPing, now, v)
}

func (g *verifPackerGuard) AppendPacket(b *packetBuffer, max protocol.ByteCount, now monotime.Time, v protocol.Version) (p shortHeaderPacket, err error) {
	defer func() {
		if e := recover(); e != nil {
			g.caught("AppendPacket", e, &err)
		}
	}()
	return g.packer.AppendPacket(b, max, now, v)
}

func (g *verifPackerGuard) PackConnectionClose(e0 *qerr.TransportError, max protocol.ByteCount, v protocol.Version) (cp *coalescedPacket, err error) {
	defer func() {
		if e := recover(); e != nil {
			cp = nil
			g.caught("PackConnectionClose", e, &err)
		}
	}()
	return g.packer.PackConnectionClose(e0, max, v)
}

func (g *verifPackerGuard) PackApplicationClose(e0 *qerr.ApplicationError, max protocol.ByteCount, v protocol.Version) (cp *coalescedPacket, err error) {
	defer func() {
		if e := recover(); e != nil {
			cp = nil
			g.caught("PackApplicationClose", e, &err)
		}
	}()
	return g.packer.PackApplicationClose(e0, max, v)
}

// VerifPoisonPacketBuffers hands n DIRTY buffers to the packet buffer pool (full length, every byte 0xA5, a stale
// reference count): what a buffer looks like when the previous user did not clean up. getPacketBuffer must hand out
// an empty buffer with reference count 1 whatever state the pooled object is in, and nothing that is sent may
// depend on the bytes beyond len(Data) being zero.
func VerifPoisonPacketBuffers(n int) {
	for i := 0; i < n; i++ {
		d := make([]byte, protocol.MaxPacketBufferSize)
		for j := range d {
			d[j] = 0xA5
		}
		bufferPool.Put(&packetBuffer{Data: d, refCount: 3})
	}
}
