//go:build verif

package quic

// Verification hooks for property C17 (connection close). Add-only, build tag `verif`, injected by
// overlay; nothing here is compiled into a normal build.
//
// The hooks build *partial* Conn values whose close-relevant parts are the real objects (streamsMap,
// streams, datagramQueue, connIDManager, connIDGenerator, packetHandlerMap of a Transport, RTTStats,
// ReceivedPacketHandler) and call the real methods (setCloseError, handleCloseError, nextIdleTimeoutTime,
// nextKeepAliveTime, idleTimeoutStartTime, maybeResetTimer). Only the packer, the send conn and the
// sent-packet handler are recording stand-ins.

import (
	"context"
	"errors"
	"fmt"
	"net"
	"sort"
	"strings"
	"sync"
	"time"

	"github.com/refraction-networking/uquic/internal/ackhandler"
	"github.com/refraction-networking/uquic/internal/flowcontrol"
	"github.com/refraction-networking/uquic/internal/monotime"
	"github.com/refraction-networking/uquic/internal/protocol"
	"github.com/refraction-networking/uquic/internal/qerr"
	"github.com/refraction-networking/uquic/internal/utils"
	"github.com/refraction-networking/uquic/internal/wire"
	"github.com/refraction-networking/uquic/qlog"
	"github.com/refraction-networking/uquic/qlogwriter"
)

// ---------------------------------------------------------------- idle / keep-alive arithmetic

type VerifIdleIn struct {
	LastRcv, FirstAE, Creation                                            int64
	IdleTimeout, KeepAlivePeriod, KeepAliveInterval, HandshakeIdleTimeout time.Duration
	HandshakeComplete, KeepAlivePingSent                                  bool
	RTTSample, MaxAckDelay                                                time.Duration // RTTSample 0: no RTT measurement yet
}

func verifIdleConn(in VerifIdleIn) *Conn {
	rtt := utils.NewRTTStats()
	if in.RTTSample > 0 {
		rtt.UpdateRTT(in.RTTSample, 0)
	}
	rtt.SetMaxAckDelay(in.MaxAckDelay)
	return &Conn{
		config:                 &Config{KeepAlivePeriod: in.KeepAlivePeriod, HandshakeIdleTimeout: in.HandshakeIdleTimeout},
		rttStats:               rtt,
		lastPacketReceivedTime: monotime.Time(in.LastRcv),
		firstAckElicitingPacketAfterIdleSentTime: monotime.Time(in.FirstAE),
		creationTime:      monotime.Time(in.Creation),
		idleTimeout:       in.IdleTimeout,
		keepAliveInterval: in.KeepAliveInterval,
		handshakeComplete: in.HandshakeComplete,
		keepAlivePingSent: in.KeepAlivePingSent,
		logger:            utils.DefaultLogger,
	}
}

// VerifIdle evaluates the three pure deadline helpers on a Conn with the given fields.
func VerifIdle(in VerifIdleIn) (pto, start, nextIdle, nextKeepAlive int64) {
	c := verifIdleConn(in)
	return int64(c.rttStats.PTO(true)), int64(c.idleTimeoutStartTime()), int64(c.nextIdleTimeoutTime()), int64(c.nextKeepAliveTime())
}

// VerifNegotiate runs applyTransportParameters' idle part on a Conn (the real function needs the whole
// connection, so only the two assignments that matter are reached through it being called on a Conn that
// has the pieces it touches).
func VerifNegotiate(cfgMaxIdle, peerMaxIdle, keepAlivePeriod time.Duration) (idle, keepAliveInterval time.Duration) {
	rtt := utils.NewRTTStats()
	c := &Conn{
		// as every real connection: the user's Config goes through populateConfig (0 = default idle timeout)
		config:      populateConfig(&Config{MaxIdleTimeout: cfgMaxIdle, KeepAlivePeriod: keepAlivePeriod}),
		rttStats:    rtt,
		perspective: protocol.PerspectiveClient,
		peerParams:  &wire.TransportParameters{MaxIdleTimeout: peerMaxIdle, ActiveConnectionIDLimit: 2},
		logger:      utils.DefaultLogger,
	}
	c.connFlowController = flowcontrol.NewConnectionFlowController(1<<20, 1<<20, nil, rtt, c.logger)
	c.streamsMap = newStreamsMap(context.Background(), verifSender{}, func(wire.Frame) {}, func(id protocol.StreamID) flowcontrol.StreamFlowController {
		return flowcontrol.NewStreamFlowController(id, c.connFlowController, 1<<16, 1<<16, 0, rtt, c.logger)
	}, 10, 10, protocol.PerspectiveClient)
	c.frameParser = *wire.NewFrameParser(false, false, false)
	c.connIDGenerator = newConnIDGenerator(verifRunner{}, protocol.ParseConnectionID([]byte{1, 2, 3, 4}), nil, newStatelessResetter(nil),
		connRunnerCallbacks{AddConnectionID: func(protocol.ConnectionID) {}, RemoveConnectionID: func(protocol.ConnectionID) {}, ReplaceWithClosed: func([]protocol.ConnectionID, []byte, time.Duration) {}},
		func(wire.Frame) {}, &protocol.DefaultConnectionIDGenerator{ConnLen: 4})
	c.connIDManager = newConnIDManager(protocol.ParseConnectionID([]byte{9, 9, 9, 9}), func(protocol.StatelessResetToken) {}, func(protocol.StatelessResetToken) {}, func(wire.Frame) {})
	c.applyTransportParameters()
	return c.idleTimeout, c.keepAliveInterval
}

type verifRunner struct{}

func (verifRunner) Add(protocol.ConnectionID, packetHandler) bool                        { return true }
func (verifRunner) Remove(protocol.ConnectionID)                                          {}
func (verifRunner) ReplaceWithClosed([]protocol.ConnectionID, []byte, time.Duration)      {}
func (verifRunner) AddResetToken(protocol.StatelessResetToken, packetHandler)             {}
func (verifRunner) RemoveResetToken(protocol.StatelessResetToken)                         {}

type verifSPH struct {
	ackhandler.SentPacketHandler
	loss monotime.Time
}

func (h *verifSPH) GetLossDetectionTimeout() monotime.Time { return h.loss }
func (h *verifSPH) ECNMode(bool) protocol.ECN              { return protocol.ECNNon }

// VerifTimer must run inside a synctest bubble. All time inputs are offsets (ns) relative to the
// bubble's monotime.Now(); hasX says whether the field is set at all. It arms the real timer through
// maybeResetTimer and measures when it fires.
type VerifTimerIn struct {
	Idle                          VerifIdleIn // LastRcv / FirstAE / Creation are offsets; FirstAE is used only if HasFirstAE
	HasFirstAE                    bool
	Blocked                       int // 0 none, 1 congestion limited, 2 hard blocked
	HasAckAlarm, HasLoss, HasPace bool
	AckRcvOff, LossOff, PaceOff   int64
}

func VerifTimer(in VerifTimerIn) (pto int64, ackAlarmOff int64, hasAlarm bool, fireAfter time.Duration) {
	now := monotime.Now()
	id := in.Idle
	id.LastRcv += int64(now)
	id.Creation += int64(now)
	if in.HasFirstAE {
		id.FirstAE += int64(now)
	} else {
		id.FirstAE = 0
	}
	c := verifIdleConn(id)
	c.blocked = blockMode(in.Blocked)
	c.receivedPacketHandler = *ackhandler.NewReceivedPacketHandler(c.logger)
	if in.HasAckAlarm {
		_ = c.receivedPacketHandler.ReceivedPacket(0, protocol.ECNNon, protocol.Encryption1RTT, now.Add(time.Duration(in.AckRcvOff)), true)
	}
	sph := &verifSPH{}
	if in.HasLoss {
		sph.loss = now.Add(time.Duration(in.LossOff))
	}
	c.sentPacketHandler = sph
	if in.HasPace {
		c.pacingDeadline = now.Add(time.Duration(in.PaceOff))
	}
	c.timer = time.NewTimer(1000 * time.Hour)
	defer c.timer.Stop()
	if a := c.receivedPacketHandler.GetAlarmTimeout(); !a.IsZero() {
		hasAlarm = true
		ackAlarmOff = int64(a.Sub(now))
	}
	c.maybeResetTimer()
	t0 := time.Now()
	<-c.timer.C
	return int64(c.rttStats.PTO(true)), ackAlarmOff, hasAlarm, time.Since(t0)
}

// ---------------------------------------------------------------- close facade

// VerifErrSpec describes an error value to close with.
//
//	kind: nil | idle | hstimeout | reset | vn | recreate | app | tr | trapp | tclosed | other
//	(trapp = a crypto TransportError wrapping an ApplicationError: both errors.As succeed)
type VerifErrSpec struct {
	Kind      string
	Code      uint64
	Remote    bool
	Wrapped   bool // fmt.Errorf("wrap: %w", e)
	Immediate bool
}

func (s VerifErrSpec) build() error {
	var e error
	switch s.Kind {
	case "nil":
		return nil
	case "idle":
		e = qerr.ErrIdleTimeout
	case "hstimeout":
		e = qerr.ErrHandshakeTimeout
	case "reset":
		e = &StatelessResetError{}
	case "vn":
		e = &VersionNegotiationError{Ours: []protocol.Version{protocol.Version1}, Theirs: []protocol.Version{0x1234}}
	case "recreate":
		e = &errCloseForRecreating{nextPacketNumber: 3, nextVersion: protocol.Version2}
	case "app":
		e = &qerr.ApplicationError{ErrorCode: qerr.ApplicationErrorCode(s.Code), Remote: s.Remote, ErrorMessage: "bye"}
	case "tr":
		e = &qerr.TransportError{ErrorCode: qerr.TransportErrorCode(s.Code), Remote: s.Remote, ErrorMessage: "oops"}
	case "trapp":
		e = qerr.NewLocalCryptoError(uint8(s.Code), &qerr.ApplicationError{ErrorCode: qerr.ApplicationErrorCode(s.Code + 1), Remote: s.Remote})
	case "tclosed":
		e = &errTransportClosed{}
	default:
		e = errors.New("some other error")
	}
	if s.Wrapped {
		e = fmt.Errorf("wrap: %w", e)
	}
	return e
}

// VerifCanonErr names an error value by its concrete type (no unwrapping except the fmt wrapper).
func VerifCanonErr(err error) string {
	role := func(r bool) string {
		if r {
			return "r"
		}
		return "l"
	}
	switch e := err.(type) {
	case nil:
		return "nil"
	case *qerr.IdleTimeoutError:
		return "idle"
	case *qerr.HandshakeTimeoutError:
		return "hstimeout"
	case *StatelessResetError:
		return "reset"
	case *VersionNegotiationError:
		return "vn"
	case *errCloseForRecreating:
		return "recreate"
	case *qerr.ApplicationError:
		return fmt.Sprintf("app:%d:%s", uint64(e.ErrorCode), role(e.Remote))
	case *qerr.TransportError:
		var inner *qerr.ApplicationError
		if e.ErrorCode.IsCryptoError() && errors.As(err, &inner) {
			return fmt.Sprintf("trapp:%d:%s", uint64(e.ErrorCode)-0x100, role(inner.Remote))
		}
		return fmt.Sprintf("tr:%d:%s", uint64(e.ErrorCode), role(e.Remote))
	case *errTransportClosed:
		return "tclosed"
	case *StreamLimitReachedError:
		return "streamlimit"
	}
	if err == context.Canceled {
		return "ctxcanceled"
	}
	if err == context.DeadlineExceeded {
		return "ctxdeadline"
	}
	if u := errors.Unwrap(err); u != nil && strings.HasPrefix(err.Error(), "wrap: ") {
		return "w(" + VerifCanonErr(u) + ")"
	}
	if strings.HasPrefix(err.Error(), "write on closed stream") {
		return "writeclosed"
	}
	return "other"
}

type VerifCloseIn struct {
	Client          bool
	SentFirstPacket bool
	Qlog            bool
	ResetToken      bool // the peer's stateless reset token is registered (client side)
	Errs            []VerifErrSpec
	// Blocked: subset of read write accept acceptuni open openuni rcvdgram senddgram
	Blocked []string
	// Later: make the same calls again after the close (plus OpenStream, and SendDatagram on a non-full queue)
	Later bool
	// QueuedDatagrams: datagrams sitting in the receive queue at close time (for the later ReceiveDatagram calls)
	QueuedDatagrams int
	// Packets fed to the routing entry after the close
	Packets int
}

type VerifCloseOut struct {
	StillBlockedBefore bool     // every requested caller was really blocked before the close
	Recorded           string   // closeErr.Load() after all requests: canonical error + immediate flag
	Ret                string   // closeErr.err after handleCloseError (what run returns / ctxCancel gets)
	Returns            []string // "<caller>=<canonical error>" sorted
	Later              []string
	Events             []string // observable effects in order
	Replies            int      // CONNECTION_CLOSE retransmissions triggered by `Packets` packets
	HandlersAfter      int      // routing entries right after the close
	HandlersExpired    int      // routing entries after the retirement period
	ExpiryPTOs         int64    // the retirement period in units of PTO(false) (exact division or -1)
	TokensAfter        int
}

type verifSender struct{}

func (verifSender) onHasConnectionData()                                           {}
func (verifSender) onHasStreamData(protocol.StreamID, *SendStream)                 {}
func (verifSender) onHasStreamControlFrame(protocol.StreamID, streamControlFrameGetter) {}
func (verifSender) onStreamCompleted(protocol.StreamID)                            {}

type verifPacker struct {
	packer
	ev *verifEvents
}

func (p *verifPacker) PackConnectionClose(e *qerr.TransportError, _ protocol.ByteCount, _ protocol.Version) (*coalescedPacket, error) {
	bug := ""
	if strings.HasPrefix(e.ErrorMessage, "connection BUG") {
		bug = ":bug"
	}
	p.ev.add(fmt.Sprintf("pack:tr:%d%s", uint64(e.ErrorCode), bug))
	b := getPacketBuffer()
	b.Data = append(b.Data, []byte("CONNECTION_CLOSE packet")...)
	return &coalescedPacket{buffer: b}, nil
}

func (p *verifPacker) PackApplicationClose(e *qerr.ApplicationError, _ protocol.ByteCount, _ protocol.Version) (*coalescedPacket, error) {
	p.ev.add(fmt.Sprintf("pack:app:%d", uint64(e.ErrorCode)))
	b := getPacketBuffer()
	b.Data = append(b.Data, []byte("CONNECTION_CLOSE packet")...)
	return &coalescedPacket{buffer: b}, nil
}

type verifSendConn struct {
	sendConn
	ev *verifEvents
}

func (c *verifSendConn) Write(b []byte, _ uint16, _ protocol.ECN) error {
	c.ev.add("write")
	return nil
}
func (c *verifSendConn) LocalAddr() net.Addr  { return &net.UDPAddr{IP: net.IPv4(1, 0, 0, 1), Port: 1} }
func (c *verifSendConn) RemoteAddr() net.Addr { return &net.UDPAddr{IP: net.IPv4(1, 0, 0, 2), Port: 2} }

type verifEvents struct {
	mu sync.Mutex
	l  []string
}

func (e *verifEvents) add(s string) {
	e.mu.Lock()
	e.l = append(e.l, s)
	e.mu.Unlock()
}

type verifQlog struct{ ev *verifEvents }

func (q *verifQlog) RecordEvent(ev qlogwriter.Event) {
	if cc, ok := ev.(qlog.ConnectionClosed); ok {
		tr, app := "-", "-"
		if cc.ConnectionError != nil {
			tr = fmt.Sprint(uint64(*cc.ConnectionError))
		}
		if cc.ApplicationError != nil {
			app = fmt.Sprint(uint64(*cc.ApplicationError))
		}
		trig := string(cc.Trigger)
		if trig == "" {
			trig = "-"
		}
		q.ev.add(fmt.Sprintf("qlog:%s:tr=%s:app=%s:trig=%s", cc.Initiator, tr, app, trig))
	}
}
func (q *verifQlog) Close() error { q.ev.add("qlogclose"); return nil }

// VerifClose must run inside a synctest bubble; wait is synctest.Wait.
func VerifClose(in VerifCloseIn, wait func()) (out VerifCloseOut) {
	ev := &verifEvents{}
	logger := utils.DefaultLogger
	persp := protocol.PerspectiveServer
	if in.Client {
		persp = protocol.PerspectiveClient
	}
	rtt := utils.NewRTTStats()
	rtt.UpdateRTT(20*time.Millisecond, 0)

	// a real Transport's routing table (no socket)
	tr := &Transport{}
	tr.handlers = make(map[protocol.ConnectionID]packetHandler)
	tr.resetTokens = make(map[protocol.StatelessResetToken]packetHandler)
	tr.logger = logger
	tr.closeQueue = make(chan closePacket, 4)
	phm := (*packetHandlerMap)(tr)

	c := &Conn{
		perspective:     persp,
		version:         protocol.Version1,
		config:          &Config{InitialPacketSize: 1252, EnableDatagrams: true},
		rttStats:        rtt,
		sentFirstPacket: in.SentFirstPacket,
		closeChan:       make(chan struct{}, 1),
		logger:          logger,
		logID:           "verif",
	}
	c.ctx, c.ctxCancel = context.WithCancelCause(context.Background())
	defer c.ctxCancel(nil)
	c.packer = &verifPacker{ev: ev}
	c.conn = &verifSendConn{ev: ev}
	c.sentPacketHandler = &verifSPH{}
	if in.Qlog {
		c.qlogger = &verifQlog{ev: ev}
	}
	c.connFlowController = flowcontrol.NewConnectionFlowController(1<<20, 1<<20, nil, rtt, logger)
	c.streamsMap = newStreamsMap(c.ctx, verifSender{}, func(wire.Frame) {}, func(id protocol.StreamID) flowcontrol.StreamFlowController {
		return flowcontrol.NewStreamFlowController(id, c.connFlowController, 1<<16, 1<<16, 0, rtt, logger)
	}, 10, 10, persp)
	c.datagramQueue = newDatagramQueue(func() {}, logger)

	srcID := protocol.ParseConnectionID([]byte{1, 2, 3, 4})
	var initialDest *protocol.ConnectionID
	if !in.Client {
		d := protocol.ParseConnectionID([]byte{5, 6, 7, 8, 9, 10, 11, 12})
		initialDest = &d
	}
	handler := packetHandler(c)
	c.connIDGenerator = newConnIDGenerator(phm, srcID, initialDest, newStatelessResetter(nil),
		connRunnerCallbacks{
			AddConnectionID: func(id protocol.ConnectionID) { phm.Add(id, handler) },
			RemoveConnectionID: func(id protocol.ConnectionID) {
				ev.add("remove")
				phm.Remove(id)
			},
			ReplaceWithClosed: func(ids []protocol.ConnectionID, pkt []byte, expiry time.Duration) {
				kind := "remote"
				if pkt != nil {
					kind = "local"
				}
				pto := rtt.PTO(false)
				n := int64(-1)
				if pto > 0 && expiry%pto == 0 {
					n = int64(expiry / pto)
				}
				out.ExpiryPTOs = n
				ev.add(fmt.Sprintf("replace:%s:%d", kind, len(ids)))
				phm.ReplaceWithClosed(ids, pkt, expiry)
			},
		},
		func(wire.Frame) {}, &protocol.DefaultConnectionIDGenerator{ConnLen: 4})
	phm.Add(srcID, handler)
	if initialDest != nil {
		phm.Add(*initialDest, handler)
	}
	c.connIDManager = newConnIDManager(protocol.ParseConnectionID([]byte{9, 9, 9, 9}),
		func(t protocol.StatelessResetToken) { phm.AddResetToken(t, handler) },
		func(t protocol.StatelessResetToken) {
			ev.add("rmtoken")
			phm.RemoveResetToken(t)
		},
		func(wire.Frame) {})
	if in.ResetToken {
		c.connIDManager.SetStatelessResetToken(protocol.StatelessResetToken{1, 2, 3})
	}

	// --- blocked callers
	want := map[string]bool{}
	for _, b := range in.Blocked {
		want[b] = true
	}
	var mu sync.Mutex
	returned := map[string]error{}
	done := map[string]bool{}
	record := func(name string, err error) {
		mu.Lock()
		returned[name] = err
		done[name] = true
		mu.Unlock()
	}
	ctx, cancel := context.WithCancel(context.Background())
	defer cancel()

	peer := persp.Opposite()
	var rstr, rstr2 *Stream // incoming bidi streams (Read)
	var wstr, wstr2 *Stream // outgoing bidi streams (Write)
	var urstr *ReceiveStream
	big := make([]byte, 3*int(protocol.MaxPacketBufferSize))

	// an incoming bidirectional stream, accepted, for Read
	{
		id := protocol.StreamNum(1).StreamID(protocol.StreamTypeBidi, peer)
		if _, err := c.streamsMap.getReceiveStream(id); err == nil {
			rstr, _ = c.streamsMap.AcceptStream(ctx)
		}
		id2 := protocol.StreamNum(2).StreamID(protocol.StreamTypeBidi, peer)
		if _, err := c.streamsMap.getReceiveStream(id2); err == nil {
			rstr2, _ = c.streamsMap.AcceptStream(ctx)
		}
	}
	if want["readuni"] {
		id := protocol.StreamNum(1).StreamID(protocol.StreamTypeUni, peer)
		if _, err := c.streamsMap.getReceiveStream(id); err == nil {
			urstr, _ = c.streamsMap.AcceptUniStream(ctx)
		}
	}
	// two outgoing bidirectional streams allowed, opened, for Write; the limit is then reached
	c.streamsMap.HandleMaxStreamsFrame(&wire.MaxStreamsFrame{Type: protocol.StreamTypeBidi, MaxStreamNum: 2})
	wstr, _ = c.streamsMap.OpenStream()
	wstr2, _ = c.streamsMap.OpenStream()
	for i := 0; i < in.QueuedDatagrams; i++ {
		c.datagramQueue.HandleDatagramFrame(&wire.DatagramFrame{Data: []byte{byte(i)}})
	}
	if want["senddgram"] || want["senddgram2"] {
		for i := 0; i < maxDatagramSendQueueLen; i++ {
			_ = c.datagramQueue.Add(&wire.DatagramFrame{Data: []byte{1}})
		}
	}

	start := func(name string, f func() error) {
		if !want[name] {
			return
		}
		go func() { record(name, f()) }()
	}
	start("read", func() error {
		if rstr == nil {
			return errors.New("setup")
		}
		_, err := rstr.Read(make([]byte, 10))
		return err
	})
	start("readuni", func() error {
		if urstr == nil {
			return errors.New("setup")
		}
		_, err := urstr.Read(make([]byte, 10))
		return err
	})
	start("write", func() error {
		if wstr == nil {
			return errors.New("setup")
		}
		_, err := wstr.Write(big)
		return err
	})
	start("read2", func() error {
		if rstr2 == nil {
			return errors.New("setup")
		}
		_, err := rstr2.Read(make([]byte, 10))
		return err
	})
	start("write2", func() error {
		if wstr2 == nil {
			return errors.New("setup")
		}
		_, err := wstr2.Write(big)
		return err
	})
	// several callers of the same kind block on the same object
	for _, sfx := range []string{"", "2", "3"} {
		start("accept"+sfx, func() error { _, err := c.streamsMap.AcceptStream(ctx); return err })
		start("acceptuni"+sfx, func() error { _, err := c.streamsMap.AcceptUniStream(ctx); return err })
		start("open"+sfx, func() error { _, err := c.streamsMap.OpenStreamSync(ctx); return err })
		start("openuni"+sfx, func() error { _, err := c.streamsMap.OpenUniStreamSync(ctx); return err })
		start("rcvdgram"+sfx, func() error { _, err := c.datagramQueue.Receive(ctx); return err })
		start("senddgram"+sfx, func() error { return c.datagramQueue.Add(&wire.DatagramFrame{Data: []byte{2}}) })
	}
	wait()
	mu.Lock()
	out.StillBlockedBefore = len(done) == 0
	mu.Unlock()

	// --- the close requests (first wins), then the run loop's reaction
	for _, s := range in.Errs {
		c.setCloseError(&closeError{err: s.build(), immediate: s.Immediate})
	}
	ce := c.closeErr.Load()
	if ce == nil {
		out.Recorded = "none"
		cancel()
		wait()
		return out
	}
	out.Recorded = fmt.Sprintf("%s/%v", VerifCanonErr(ce.err), ce.immediate)
	c.handleCloseError(ce)
	out.Ret = VerifCanonErr(ce.err)
	wait()

	mu.Lock()
	for _, name := range in.Blocked {
		if done[name] {
			out.Returns = append(out.Returns, name+"="+VerifCanonErr(returned[name]))
		} else {
			out.Returns = append(out.Returns, name+"=BLOCKED")
		}
	}
	mu.Unlock()
	sort.Strings(out.Returns)

	// --- later calls (each bounded by a context that is cancelled if it blocks)
	if in.Later {
		later := func(name string, f func(ctx context.Context) error) {
			lctx, lcancel := context.WithCancel(context.Background())
			ch := make(chan error, 1)
			go func() { ch <- f(lctx) }()
			wait()
			select {
			case err := <-ch:
				out.Later = append(out.Later, name+"="+VerifCanonErr(err))
			default:
				out.Later = append(out.Later, name+"=BLOCKED")
				lcancel()
				verifForceRelease(c, rstr, wstr)
				<-ch
			}
			lcancel()
		}
		if rstr != nil {
			later("read", func(context.Context) error { _, err := rstr.Read(make([]byte, 10)); return err })
		}
		if wstr != nil {
			later("write", func(context.Context) error { _, err := wstr.Write(big); return err })
			later("writesmall", func(context.Context) error { _, err := wstr.Write([]byte("x")); return err })
		}
		later("accept", func(ctx context.Context) error { _, err := c.streamsMap.AcceptStream(ctx); return err })
		later("acceptuni", func(ctx context.Context) error { _, err := c.streamsMap.AcceptUniStream(ctx); return err })
		later("open", func(ctx context.Context) error { _, err := c.streamsMap.OpenStreamSync(ctx); return err })
		later("openuni", func(ctx context.Context) error { _, err := c.streamsMap.OpenUniStreamSync(ctx); return err })
		later("opennow", func(context.Context) error { _, err := c.streamsMap.OpenStream(); return err })
		for i := 0; i <= in.QueuedDatagrams; i++ {
			later(fmt.Sprintf("rcvdgram%d", i), func(ctx context.Context) error { _, err := c.datagramQueue.Receive(ctx); return err })
		}
		later("senddgram", func(context.Context) error { return c.datagramQueue.Add(&wire.DatagramFrame{Data: []byte{3}}) })
	}

	// --- routing table after the close
	tr.mutex.Lock()
	out.HandlersAfter = len(tr.handlers)
	out.TokensAfter = len(tr.resetTokens)
	tr.mutex.Unlock()
	if h, ok := phm.Get(srcID); ok && in.Packets > 0 {
		for i := 0; i < in.Packets; i++ {
			h.handlePacket(receivedPacket{remoteAddr: &net.UDPAddr{IP: net.IPv4(1, 0, 0, 2), Port: 2}})
			for drained := false; !drained; {
				select {
				case <-tr.closeQueue:
					out.Replies++
				default:
					drained = true
				}
			}
		}
	}
	time.Sleep(3*rtt.PTO(false) + time.Millisecond)
	wait()
	tr.mutex.Lock()
	out.HandlersExpired = len(tr.handlers)
	tr.mutex.Unlock()

	// release whatever a broken close left blocked, so the bubble can end
	cancel()
	verifForceRelease(c, rstr, wstr)
	verifForceRelease(c, rstr2, wstr2)
	if urstr != nil {
		urstr.closeForShutdown(errors.New("verif cleanup"))
	}
	wait()
	ev.mu.Lock()
	out.Events = append([]string(nil), ev.l...)
	ev.mu.Unlock()
	return out
}

func verifForceRelease(c *Conn, rstr, wstr *Stream) {
	cleanup := errors.New("verif cleanup")
	if rstr != nil {
		rstr.receiveStr.closeForShutdown(cleanup)
	}
	if wstr != nil {
		wstr.sendStr.closeForShutdown(cleanup)
		wstr.sendStr.mutex.Lock()
		if wstr.sendStr.shutdownErr == nil {
			wstr.sendStr.shutdownErr = cleanup
		}
		wstr.sendStr.mutex.Unlock()
		wstr.sendStr.signalWrite()
	}
	select {
	case <-c.datagramQueue.closed:
	default:
		c.datagramQueue.CloseWithError(cleanup)
	}
}

// VerifClosedConn feeds n packets to a fresh closedLocalConn / closedRemoteConn and counts the
// CONNECTION_CLOSE retransmissions it asks for.
func VerifClosedConn(local bool, n int) int {
	replies := 0
	var h packetHandler
	if local {
		h = newClosedLocalConn(func(net.Addr, packetInfo) { replies++ }, utils.DefaultLogger)
	} else {
		h = newClosedRemoteConn()
	}
	for i := 0; i < n; i++ {
		h.handlePacket(receivedPacket{})
	}
	return replies
}

// ---------------------------------------------------------------- accessors for the end-to-end driver

// VerifRouting returns the number of routing entries (connection IDs) and stateless-reset tokens.
func (t *Transport) VerifRouting() (handlers, tokens int) {
	t.mutex.Lock()
	defer t.mutex.Unlock()
	return len(t.handlers), len(t.resetTokens)
}

type VerifIdleState struct {
	Now, LastRcv, FirstAE, Creation   int64
	IdleTimeout, PTO, KeepAliveInterval time.Duration
	KeepAlivePeriod                   time.Duration
	KeepAlivePingSent, HandshakeComplete bool
}

// VerifIdleState reads the idle-timeout inputs of a connection. Only meaningful while the connection's
// run loop is parked or after it has ended (the driver calls it inside a synctest bubble after Wait).
func (c *Conn) VerifIdleState() VerifIdleState {
	return VerifIdleState{
		Now:               int64(monotime.Now()),
		LastRcv:           int64(c.lastPacketReceivedTime),
		FirstAE:           int64(c.firstAckElicitingPacketAfterIdleSentTime),
		Creation:          int64(c.creationTime),
		IdleTimeout:       c.idleTimeout,
		PTO:               c.rttStats.PTO(true),
		KeepAliveInterval: c.keepAliveInterval,
		KeepAlivePeriod:   c.config.KeepAlivePeriod,
		KeepAlivePingSent: c.keepAlivePingSent,
		HandshakeComplete: c.handshakeComplete,
	}
}

func VerifMonoNow() int64 { return int64(monotime.Now()) }

// VerifQueueBadFrame makes this endpoint send a frame the peer must answer with a fatal transport error.
//
//	0: MAX_STREAMS above 2^60 (FRAME_ENCODING_ERROR)   1: HANDSHAKE_DONE / NEW_TOKEN in the wrong direction (PROTOCOL_VIOLATION)
//	2: MAX_STREAM_DATA for a stream the peer has not opened (STREAM_STATE_ERROR)
func (c *Conn) VerifQueueBadFrame(kind int) {
	switch kind {
	case 0:
		c.queueControlFrame(&wire.MaxStreamsFrame{Type: protocol.StreamTypeBidi, MaxStreamNum: 1 << 61})
	case 1:
		if c.perspective == protocol.PerspectiveClient {
			c.queueControlFrame(&wire.HandshakeDoneFrame{})
			return
		}
		fallthrough
	default:
		id := protocol.StreamNum(900).StreamID(protocol.StreamTypeBidi, c.perspective.Opposite())
		c.queueControlFrame(&wire.MaxStreamDataFrame{StreamID: id, MaximumStreamData: 1 << 20})
	}
}

// VerifCloseLocalAll records a local application close (closeLocal, as CloseWithError does before it waits)
// on every live connection of the transport and returns how many there were. Called from a qlog callback on
// the run-loop goroutine it reproduces, deterministically, an application that calls CloseWithError at the
// very instant the handshake completes.
func (t *Transport) VerifCloseLocalAll(code uint64) int {
	t.mutex.Lock()
	seen := map[*Conn]bool{}
	for _, h := range t.handlers {
		switch c := h.(type) {
		case *Conn:
			seen[c] = true
		case *wrappedConn:
			seen[c.Conn] = true
		}
	}
	t.mutex.Unlock()
	for c := range seen {
		c.closeLocal(&qerr.ApplicationError{ErrorCode: qerr.ApplicationErrorCode(code), ErrorMessage: "bye"})
	}
	return len(seen)
}
