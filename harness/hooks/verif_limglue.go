//go:build verif

package quic

import (
	"context"
	"fmt"
	"io"
	"net"
	"time"

	"github.com/refraction-networking/uquic/internal/ackhandler"
	"github.com/refraction-networking/uquic/internal/monotime"
	"github.com/refraction-networking/uquic/internal/protocol"
	"github.com/refraction-networking/uquic/internal/utils"
	"github.com/refraction-networking/uquic/internal/wire"
	"github.com/refraction-networking/uquic/quicvarint"
	tls "github.com/refraction-networking/utls"
)

// Exporters for the C12 glue driver (limglue). Add-only.
//
// VerifLGConn is a real client *Conn built by the real newUClientConnection (spec-driven) or
// newClientConnection (plain): real transport-parameter record, real configCoveringAdvertised +
// preSetup (flow controllers, streams map, frame parser, connIDManager with SetConnectionIDLimit),
// real sent/received packet handlers. There is no run loop, no packer and no network: the driver
// plays the peer and the run loop. What the peer sends enters through the REAL
// Conn.handleUnpackedShortHeaderPacket as serialized frames (frame parser, handleFrames, every frame
// handler); what the client sends is registered through the real registerPackedShortHeaderPacket;
// what the client would put into its next packet is read from the real framer.
//
// Unexported identifiers named here (a rename breaks the build of this hook, not the property):
// newUClientConnection, newClientConnection, populateConfig, handleTransportParameters,
// handleHandshakeComplete, handleUnpackedShortHeaderPacket, registerPackedShortHeaderPacket,
// nextIdleTimeoutTime, connFlowController, framer, streamsMap, rttStats, handshakeComplete.
type VerifLGConn struct {
	C  *Conn
	t0 monotime.Time
	pn protocol.PacketNumber
	readers map[protocol.StreamID]verifLGReader
}

type verifLGSendConn struct{}

func (verifLGSendConn) Write([]byte, uint16, protocol.ECN) error { return nil }
func (verifLGSendConn) WriteTo([]byte, net.Addr) error          { return nil }
func (verifLGSendConn) Close() error                            { return nil }
func (verifLGSendConn) LocalAddr() net.Addr                     { return &net.UDPAddr{IP: net.IPv4(10, 0, 0, 1), Port: 1} }
func (verifLGSendConn) RemoteAddr() net.Addr                    { return &net.UDPAddr{IP: net.IPv4(10, 0, 0, 2), Port: 2} }
func (verifLGSendConn) ChangeRemoteAddr(net.Addr, packetInfo)   {}
func (verifLGSendConn) capabilities() connCapabilities          { return connCapabilities{} }

type verifLGRunner struct{}

func (verifLGRunner) Add(protocol.ConnectionID, packetHandler) bool                    { return true }
func (verifLGRunner) Remove(protocol.ConnectionID)                                     {}
func (verifLGRunner) ReplaceWithClosed([]protocol.ConnectionID, []byte, time.Duration) {}
func (verifLGRunner) AddResetToken(protocol.StatelessResetToken, packetHandler)        {}
func (verifLGRunner) RemoveResetToken(protocol.StatelessResetToken)                    {}

var (
	verifLGDest = protocol.ParseConnectionID([]byte{0xc1, 0x2d, 0xe5, 0x70, 1, 2, 3, 4})
	verifLGSrc  = protocol.ParseConnectionID([]byte{0x12, 0x12, 0x12, 0x12})
)

// VerifLGNew builds the client exactly as (U)Transport.doDial does: populateConfig, then the
// constructor. spec == nil: the plain client.
func VerifLGNew(spec *QUICSpec, conf *Config) (v *VerifLGConn, err error) {
	defer func() {
		if e := recover(); e != nil {
			v, err = nil, fmt.Errorf("constructor panicked: %v", e)
		}
	}()
	tlsConf := &tls.Config{ServerName: "verif.example", NextProtos: []string{"h3"}}
	var c *Conn
	if spec != nil {
		w := newUClientConnection(context.Background(), verifLGSendConn{}, verifLGRunner{}, verifLGDest, verifLGSrc,
			&protocol.DefaultConnectionIDGenerator{ConnLen: verifLGSrc.Len()}, newStatelessResetter(nil),
			populateConfig(conf), tlsConf, 0, false, false, nil, utils.DefaultLogger, protocol.Version1, spec)
		c = w.Conn
	} else {
		w := newClientConnection(context.Background(), verifLGSendConn{}, verifLGRunner{}, verifLGDest, verifLGSrc,
			&protocol.DefaultConnectionIDGenerator{ConnLen: verifLGSrc.Len()}, newStatelessResetter(nil),
			populateConfig(conf), tlsConf, 0, false, false, nil, utils.DefaultLogger, protocol.Version1)
		c = w.Conn
	}
	return &VerifLGConn{C: c, t0: monotime.Now().Add(time.Hour), readers: map[protocol.StreamID]verifLGReader{}}, nil
}

func (v *VerifLGConn) Close() {
	v.C.cryptoStreamHandler.Close()
	v.C.ctxCancel(nil)
}

func (v *VerifLGConn) at(d time.Duration) monotime.Time { return v.t0.Add(d) }

// Handshake: the peer's transport parameters arrive and the handshake completes at offset `at`
// (real handleTransportParameters, real handleHandshakeComplete → applyTransportParameters); one RTT
// sample so that flow-control auto-tuning is live. Returns the effective idle timeout and 3·PTO.
func (v *VerifLGConn) Handshake(at time.Duration, peer *wire.TransportParameters, rtt time.Duration) (idle, pto3 time.Duration, err error) {
	c := v.C
	peer.InitialSourceConnectionID = c.handshakeDestConnID
	peer.OriginalDestinationConnectionID = c.origDestConnID
	if err := c.handleTransportParameters(peer); err != nil {
		return 0, 0, err
	}
	c.rttStats.UpdateRTT(rtt, 0)
	c.lastPacketReceivedTime = v.at(at)
	c.handshakeComplete = true
	if err := c.handleHandshakeComplete(v.at(at)); err != nil {
		return 0, 0, err
	}
	return c.idleTimeout, 3 * c.rttStats.PTO(true), nil
}

// Packet: a 1-RTT packet of the peer with these frames arrives at offset `at`.
func (v *VerifLGConn) Packet(at time.Duration, frames []wire.Frame) error {
	var data []byte
	for _, f := range frames {
		var err error
		if sf, ok := f.(*wire.StreamFrame); ok && len(sf.Data) == 0 && !sf.Fin {
			// a STREAM frame without data and without FIN (opens the stream; wire.StreamFrame.Append
			// refuses to write it): type 0x08 | OFF | LEN, stream id, offset, length 0
			data = append(data, 0x08|0x04|0x02)
			data = quicvarint.Append(data, uint64(sf.StreamID))
			data = quicvarint.Append(data, uint64(sf.Offset))
			data = quicvarint.Append(data, 0)
			continue
		}
		data, err = f.Append(data, protocol.Version1)
		if err != nil {
			return fmt.Errorf("verif: cannot serialize %T: %w", f, err)
		}
	}
	if len(frames) == 0 {
		data = []byte{0, 0, 0} // PADDING only: a packet that is not ack-eliciting
	}
	v.pn++
	_, _, err := v.C.handleUnpackedShortHeaderPacket(verifLGSrc, v.pn, data, protocol.ECNNon, v.at(at), nil)
	return err
}

// Sent: the client sends a 1-RTT packet at offset `at` (ack-eliciting: it carries a PING).
func (v *VerifLGConn) Sent(at time.Duration, ackEliciting bool) {
	c := v.C
	p := shortHeaderPacket{
		PacketNumber:    c.sentPacketHandler.PopPacketNumber(protocol.Encryption1RTT),
		PacketNumberLen: protocol.PacketNumberLen2,
		DestConnID:      verifLGDest,
		Length:          50,
	}
	if ackEliciting {
		p.Frames = []ackhandler.Frame{{Frame: &wire.PingFrame{}}}
	}
	c.registerPackedShortHeaderPacket(p, protocol.ECNNon, v.at(at))
}

// IdleDeadline: the instant the run loop closes the connection with an idle timeout (the deadline
// both the run loop's check and maybeResetTimer use), as an offset.
func (v *VerifLGConn) IdleDeadline() time.Duration { return v.C.nextIdleTimeoutTime().Sub(v.t0) }

// OpenBidi: the application opens a bidirectional stream (public API).
func (v *VerifLGConn) OpenBidi() (int64, error) {
	s, err := v.C.OpenStream()
	if err != nil {
		return 0, err
	}
	v.readers[s.StreamID()] = s
	return int64(s.StreamID()), nil
}

type verifLGReader interface {
	Read([]byte) (int, error)
	SetReadDeadline(time.Time) error
}

// AcceptOne: one AcceptStream / AcceptUniStream (public API; a context that is already cancelled never
// blocks). Returns the stream id, or -1 when no stream is waiting.
func (v *VerifLGConn) AcceptOne(uni bool) int64 {
	ctx, cancel := context.WithCancel(context.Background())
	cancel()
	if uni {
		s, err := v.C.AcceptUniStream(ctx)
		if err != nil {
			return -1
		}
		v.readers[s.StreamID()] = s
		return int64(s.StreamID())
	}
	s, err := v.C.AcceptStream(ctx)
	if err != nil {
		return -1
	}
	v.readers[s.StreamID()] = s
	return int64(s.StreamID())
}

// acceptFor: the application accepts the streams of id's kind, in order, until it holds stream id (streams the
// peer opened after it stay in the accept queue).
func (v *VerifLGConn) acceptFor(id protocol.StreamID) {
	if id.InitiatedBy() != protocol.PerspectiveServer {
		return
	}
	for range 1 << 16 {
		if _, ok := v.readers[id]; ok {
			return
		}
		if v.AcceptOne(id.Type() == protocol.StreamTypeUni) < 0 {
			return
		}
	}
}

// CloseSend: the application closes its send side of a bidirectional stream (public API).
func (v *VerifLGConn) CloseSend(id int64) bool {
	v.acceptFor(protocol.StreamID(id))
	s, ok := v.readers[protocol.StreamID(id)].(io.Closer)
	if !ok {
		return false
	}
	s.Close()
	return true
}

// StopReading: the application cancels reading a stream it holds (public API CancelRead).
func (v *VerifLGConn) StopReading(id int64) bool {
	v.acceptFor(protocol.StreamID(id))
	s, ok := v.readers[protocol.StreamID(id)].(interface{ CancelRead(StreamErrorCode) })
	if !ok {
		return false
	}
	s.CancelRead(7)
	return true
}

// ReadFrom: the application reads up to n bytes the peer sent on stream id, without blocking; eof: a Read
// returned io.EOF.
func (v *VerifLGConn) ReadFrom(id int64, n int) (got int, eof, ok bool) {
	v.acceptFor(protocol.StreamID(id))
	rs, ok := v.readers[protocol.StreamID(id)]
	if !ok {
		return 0, false, false
	}
	// (the deadline is checked before buffered data is looked at: it must lie in the future; the driver
	// only asks for bytes the peer has sent, so a Read never waits for it)
	rs.SetReadDeadline(time.Now().Add(200 * time.Millisecond))
	buf := make([]byte, 64<<10)
	for got < n {
		k := min(n-got, len(buf))
		m, err := rs.Read(buf[:k])
		got += m
		if err == io.EOF {
			eof = true
		}
		if err != nil || m == 0 {
			break
		}
	}
	return got, eof, true
}

// VerifLGOut is what the client would put into its next packet.
type VerifLGOut struct {
	MaxData        int64           // 0: none
	MaxStreamData  map[int64]int64 // stream id → offset
	MaxStreams     []string        // "b:<n>" / "u:<n>"
	RetireConnIDs  []uint64
}

// Pack is the MAX_DATA step of Conn.sendPackets followed by the real framer composing control frames (and the
// STREAM frames that carry a FIN), until the framer has nothing left.
func (v *VerifLGConn) Pack(at time.Duration) VerifLGOut {
	c := v.C
	now := v.at(at)
	out := VerifLGOut{MaxStreamData: map[int64]int64{}}
	if offset := c.connFlowController.GetWindowUpdate(now); offset > 0 {
		c.framer.QueueControlFrame(&wire.MaxDataFrame{MaximumData: offset})
	}
	for range 64 {
		frames, streamFrames, _ := c.framer.Append(nil, nil, 1200, now, protocol.Version1)
		if len(frames) == 0 && len(streamFrames) == 0 {
			break
		}
		// STREAM frames (the application never writes: these are the FINs of closed send sides) leave and the peer
		// acknowledges them: the send side of the stream is done
		for _, sf := range streamFrames {
			if sf.Handler != nil {
				sf.Handler.OnAcked(sf.Frame)
			}
		}
		for _, f := range frames {
			switch x := f.Frame.(type) {
			case *wire.MaxDataFrame:
				out.MaxData = max(out.MaxData, int64(x.MaximumData))
			case *wire.MaxStreamDataFrame:
				out.MaxStreamData[int64(x.StreamID)] = max(out.MaxStreamData[int64(x.StreamID)], int64(x.MaximumStreamData))
			case *wire.MaxStreamsFrame:
				k := "b"
				if x.Type == protocol.StreamTypeUni {
					k = "u"
				}
				out.MaxStreams = append(out.MaxStreams, fmt.Sprintf("%s:%d", k, x.MaxStreamNum))
			case *wire.RetireConnectionIDFrame:
				out.RetireConnIDs = append(out.RetireConnIDs, x.SequenceNumber)
			}
		}
	}
	return out
}
