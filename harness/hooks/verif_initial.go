//go:build verif

package quic

import (
	"context"
	"sync"

	"github.com/refraction-networking/uquic/internal/protocol"
	"github.com/refraction-networking/uquic/internal/utils"
	"github.com/refraction-networking/uquic/qlogwriter"
	tls "github.com/refraction-networking/utls"
)

// Read-only exporters for the C10 (Initial flight) driver. Add-only: the package variable
// newUClientConnection is wrapped so that the most recently created spec-driven client
// connection can be inspected after its dial has ended.

var (
	verifInitialMu   sync.Mutex
	verifLastUClient *Conn
)

func init() {
	orig := newUClientConnection
	newUClientConnection = func(
		ctx context.Context,
		conn sendConn,
		runner connRunner,
		destConnID protocol.ConnectionID,
		srcConnID protocol.ConnectionID,
		connIDGenerator ConnectionIDGenerator,
		statelessResetter *statelessResetter,
		conf *Config,
		tlsConf *tls.Config,
		initialPacketNumber protocol.PacketNumber,
		enable0RTT bool,
		hasNegotiatedVersion bool,
		qlogTrace qlogwriter.Trace,
		logger utils.Logger,
		v protocol.Version,
		uSpec *QUICSpec,
	) *wrappedConn {
		w := orig(ctx, conn, runner, destConnID, srcConnID, connIDGenerator, statelessResetter, conf, tlsConf,
			initialPacketNumber, enable0RTT, hasNegotiatedVersion, qlogTrace, logger, v, uSpec)
		verifInitialMu.Lock()
		verifLastUClient = w.Conn
		verifInitialMu.Unlock()
		return w
	}
}

// VerifResetLastUClient forgets the recorded connection (called before each dial).
func VerifResetLastUClient() {
	verifInitialMu.Lock()
	verifLastUClient = nil
	verifInitialMu.Unlock()
}

// VerifInitialCryptoWritten returns how many bytes of the Initial CRYPTO stream (the ClientHello)
// the last spec-driven client connection has handed to the packer (its write offset), and the
// connection's maximum packet size before the handshake (what it passes to PackCoalescedPacket).
// Only call after the connection's run loop has ended. Returns (-1,-1) when no connection was made.
func VerifInitialCryptoWritten() (cryptoLen int64, maxPacketSize int64) {
	verifInitialMu.Lock()
	c := verifLastUClient
	verifInitialMu.Unlock()
	if c == nil {
		return -1, -1
	}
	return int64(c.initialStream.writeOffset), int64(c.config.InitialPacketSize)
}
