//go:build verif

package quic

import (
	"github.com/refraction-networking/uquic/internal/protocol"
	"github.com/refraction-networking/uquic/internal/wire"
)

// Exporter for the verification harness (property C03): the real cryptoStreamManager with its
// Initial / Handshake / 1-RTT crypto streams. Add-only facade; no behaviour is changed.

type VerifCryptoManager struct{ m *cryptoStreamManager }

func VerifNewCryptoManager() *VerifCryptoManager {
	return &VerifCryptoManager{m: newCryptoStreamManager(newInitialCryptoStream(false), newCryptoStream(), newCryptoStream())}
}

func (v *VerifCryptoManager) HandleCryptoFrame(f *wire.CryptoFrame, lvl protocol.EncryptionLevel) error {
	return v.m.HandleCryptoFrame(f, lvl)
}
func (v *VerifCryptoManager) GetCryptoData(lvl protocol.EncryptionLevel) []byte { return v.m.GetCryptoData(lvl) }
func (v *VerifCryptoManager) Drop(lvl protocol.EncryptionLevel) error            { return v.m.Drop(lvl) }
