//go:build verif

package quic

import (
	"context"
	"sort"

	"github.com/refraction-networking/uquic/internal/ackhandler"
	"github.com/refraction-networking/uquic/internal/flowcontrol"
	"github.com/refraction-networking/uquic/internal/handshake"
	"github.com/refraction-networking/uquic/internal/monotime"
	"github.com/refraction-networking/uquic/internal/protocol"
	"github.com/refraction-networking/uquic/internal/utils"
	"github.com/refraction-networking/uquic/internal/wire"
)

// C01 fpack driver: the REAL framer, REAL SendStreams with REAL stream/connection flow controllers, the REAL
// retransmission queue and datagram queue, and the REAL packetPacker (AppendPacket -> composeNextPacket) with a
// null sealer. The wiring is what Conn does: onHasStreamData -> framer.AddActiveStream, onStreamCompleted ->
// framer.RemoveActiveStream, MAX_DATA -> connFlowController.UpdateSendWindow, MAX_STREAM_DATA -> updateSendWindow.

type verifNullSealer struct{}

func (verifNullSealer) Seal(dst, src []byte, _ protocol.PacketNumber, _ []byte) []byte {
	return append(append(dst, src...), make([]byte, 16)...)
}
func (verifNullSealer) EncryptHeader([]byte, *byte, []byte) {}
func (verifNullSealer) Overhead() int                        { return 16 }
func (verifNullSealer) KeyPhase() protocol.KeyPhaseBit       { return protocol.KeyPhaseZero }

type verifSealing struct{}

func (verifSealing) GetInitialSealer() (handshake.LongHeaderSealer, error)   { return nil, errNothingToPack }
func (verifSealing) GetHandshakeSealer() (handshake.LongHeaderSealer, error) { return nil, errNothingToPack }
func (verifSealing) Get0RTTSealer() (handshake.LongHeaderSealer, error)      { return nil, errNothingToPack }
func (verifSealing) Get1RTTSealer() (handshake.ShortHeaderSealer, error)     { return verifNullSealer{}, nil }

type verifPN struct{ next protocol.PacketNumber }

func (p *verifPN) PeekPacketNumber(protocol.EncryptionLevel) (protocol.PacketNumber, protocol.PacketNumberLen) {
	return p.next, protocol.PacketNumberLen2
}
func (p *verifPN) PopPacketNumber(protocol.EncryptionLevel) protocol.PacketNumber {
	n := p.next
	p.next++
	return n
}

type verifNoAcks struct{}

func (verifNoAcks) GetAckFrame(protocol.EncryptionLevel, monotime.Time, bool) *wire.AckFrame { return nil }

// VerifPoll is one call of popStreamFrame made by the framer.
type VerifPoll struct {
	ID       int64
	HasFrame bool
	HasMore  bool
}

type verifGetter struct {
	vp  *VerifPack
	id  protocol.StreamID
	str *SendStream
}

func (g *verifGetter) popStreamFrame(maxBytes protocol.ByteCount, v protocol.Version) (ackhandler.StreamFrame, *wire.StreamDataBlockedFrame, bool) {
	f, b, more := g.str.popStreamFrame(maxBytes, v)
	g.vp.Polls = append(g.vp.Polls, VerifPoll{ID: int64(g.id), HasFrame: f.Frame != nil, HasMore: more})
	return f, b, more
}

type VerifPack struct {
	connFC  flowcontrol.ConnectionFlowController
	rtt     *utils.RTTStats
	framer  *framer
	rq      *retransmissionQueue
	dq      *datagramQueue
	packer  *packetPacker
	Streams map[int64]*SendStream
	Polls   []VerifPoll // polls of the last Pack
	Done    []int64     // onStreamCompleted calls, in order
}

func (vp *VerifPack) onHasConnectionData() {}
func (vp *VerifPack) onHasStreamData(id protocol.StreamID, str *SendStream) {
	vp.framer.AddActiveStream(id, &verifGetter{vp: vp, id: id, str: str})
}
func (vp *VerifPack) onHasStreamControlFrame(id protocol.StreamID, str streamControlFrameGetter) {
	vp.framer.AddStreamWithControlFrames(id, str)
}
func (vp *VerifPack) onStreamCompleted(id protocol.StreamID) {
	vp.Done = append(vp.Done, int64(id))
	vp.framer.RemoveActiveStream(id)
}

func VerifNewPack(connWindow protocol.ByteCount) *VerifPack {
	vp := &VerifPack{rtt: utils.NewRTTStats(), Streams: map[int64]*SendStream{}}
	cfc := flowcontrol.NewConnectionFlowController(1<<20, 1<<20, func(protocol.ByteCount) bool { return true }, vp.rtt, utils.DefaultLogger)
	cfc.UpdateSendWindow(connWindow)
	vp.connFC = cfc
	vp.framer = newFramer(cfc)
	vp.rq = newRetransmissionQueue()
	vp.dq = newDatagramQueue(func() {}, utils.DefaultLogger)
	vp.packer = newPacketPacker(protocol.ConnectionID{}, func() protocol.ConnectionID { return protocol.ParseConnectionID([]byte{1, 2, 3, 4}) },
		nil, nil, &verifPN{}, vp.rq, verifSealing{}, vp.framer, verifNoAcks{}, vp.dq, protocol.PerspectiveClient)
	return vp
}

func (vp *VerifPack) OpenStream(id int64, sendWindow protocol.ByteCount) *SendStream {
	fc := flowcontrol.NewStreamFlowController(protocol.StreamID(id), vp.connFC, 1<<20, 1<<20, sendWindow, vp.rtt, utils.DefaultLogger)
	s := newSendStream(context.Background(), protocol.StreamID(id), vp, fc, false)
	vp.Streams[id] = s
	return s
}

// MaxData is what Conn.handleFrame does for a MAX_DATA frame.
func (vp *VerifPack) MaxData(v protocol.ByteCount) { vp.connFC.UpdateSendWindow(v) }

// MaxStreamData is what the streams map does for a MAX_STREAM_DATA frame.
func (vp *VerifPack) MaxStreamData(id int64, v protocol.ByteCount) {
	if s, ok := vp.Streams[id]; ok {
		s.updateSendWindow(v)
	}
}

func (vp *VerifPack) AddDatagram(data []byte) error {
	return vp.dq.Add(&wire.DatagramFrame{DataLenPresent: true, Data: data})
}

func (vp *VerifPack) DatagramQueueLen() int {
	vp.dq.sendMx.Lock()
	defer vp.dq.sendMx.Unlock()
	return vp.dq.sendQueue.Len()
}

// VerifPacket is what AppendPacket produced.
type VerifPacket struct {
	PN           int64
	Frames       []ackhandler.Frame
	StreamFrames []ackhandler.StreamFrame
	Length       int64
}

// Pack calls the real packetPacker.AppendPacket (1-RTT). ok=false: nothing to pack.
func (vp *VerifPack) Pack(maxSize protocol.ByteCount) (VerifPacket, bool) {
	vp.Polls = vp.Polls[:0]
	buf := getPacketBuffer()
	defer buf.Release()
	p, err := vp.packer.AppendPacket(buf, maxSize, monotime.Now(), protocol.Version1)
	if err != nil {
		return VerifPacket{}, false
	}
	return VerifPacket{PN: int64(p.PacketNumber), Frames: p.Frames, StreamFrames: p.StreamFrames, Length: int64(p.Length)}, true
}

// Active lists the stream ids registered in the framer (sorted), and the length of its round-robin queue.
func (vp *VerifPack) Active() ([]int64, int) {
	vp.framer.mutex.Lock()
	defer vp.framer.mutex.Unlock()
	var ids []int64
	for id := range vp.framer.activeStreams {
		ids = append(ids, int64(id))
	}
	sort.Slice(ids, func(i, j int) bool { return ids[i] < ids[j] })
	return ids, vp.framer.streamQueue.Len()
}

func (vp *VerifPack) ConnSendWindow() int64 { return int64(vp.connFC.SendWindowSize()) }

// Shutdown unblocks parked Write calls at the end of a case.
func (vp *VerifPack) Shutdown(err error) {
	for _, s := range vp.Streams {
		s.closeForShutdown(err)
		s.CancelWrite(0)
	}
	vp.dq.CloseWithError(err)
}
