//go:build verif

package quic

// Read-only exporter for the C10 `tokalias` driver. ClientToken has no accessor for its bytes
// (NewClientToken only constructs), so the driver needs this one to look at the slice a
// TokenStore.Pop handed out — the SAME slice the connection would give to its packer
// (newUClientConnection: s.packer.SetToken(token.data)) — without copying it.

// VerifClientTokenData returns the token's byte slice itself (no copy); nil for a nil token.
func VerifClientTokenData(t *ClientToken) []byte {
	if t == nil {
		return nil
	}
	return t.data
}
