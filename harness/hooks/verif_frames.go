//go:build verif

package quic

// Exporters for the C09 correspondence driver (add-only, read-only accessors and thin
// wrappers around unexported functions; nothing here changes behaviour).

import (
	"fmt"

	"github.com/refraction-networking/uquic/internal/ackhandler"
	"github.com/refraction-networking/uquic/internal/handshake"
	"github.com/refraction-networking/uquic/internal/monotime"
	"github.com/refraction-networking/uquic/internal/protocol"
	"github.com/refraction-networking/uquic/internal/wire"
)

// VerifValidateInitialFlight calls validateInitialFlight with budgets made of MaxFrameBytes only.
func VerifValidateInitialFlight(payloads [][]byte, maxFrameBytes []int, cryptoLen int) error {
	budgets := make([]InitialDatagramBudget, len(maxFrameBytes))
	for i, b := range maxFrameBytes {
		budgets[i] = InitialDatagramBudget{MaxFrameBytes: b}
	}
	return validateInitialFlight(payloads, budgets, cryptoLen)
}

// VerifFindSNIAndECH exposes findSNIAndECH.
func VerifFindSNIAndECH(b []byte) (sniPos, sniLen, echPos int, err error) { return findSNIAndECH(b) }

// VerifCryptoStream wraps either an initialCryptoStream or a plain cryptoStream.
type VerifCryptoStream struct {
	ini  *initialCryptoStream
	base *cryptoStream
}

func VerifNewInitialCryptoStream(isClient bool) *VerifCryptoStream {
	return &VerifCryptoStream{ini: newInitialCryptoStream(isClient)}
}

func VerifNewCryptoStream() *VerifCryptoStream { return &VerifCryptoStream{base: newCryptoStream()} }

func (s *VerifCryptoStream) Write(p []byte) (int, error) {
	if s.ini != nil {
		return s.ini.Write(p)
	}
	return s.base.Write(p)
}

func (s *VerifCryptoStream) HasData() bool {
	if s.ini != nil {
		return s.ini.HasData()
	}
	return s.base.HasData()
}

// PopCryptoFrame returns (offset, copy of data, true) or (0, nil, false) when the stream returned nil.
func (s *VerifCryptoStream) PopCryptoFrame(maxLen int64) (int64, []byte, bool) {
	var f *wire.CryptoFrame
	if s.ini != nil {
		f = s.ini.PopCryptoFrame(protocol.ByteCount(maxLen))
	} else {
		f = s.base.PopCryptoFrame(protocol.ByteCount(maxLen))
	}
	if f == nil {
		return 0, nil, false
	}
	return int64(f.Offset), append([]byte{}, f.Data...), true
}

func (s *VerifCryptoStream) PopAllCryptoData() ([]byte, bool) {
	if s.ini == nil {
		return nil, false
	}
	return append([]byte{}, s.ini.PopAllCryptoData()...), true
}

func (s *VerifCryptoStream) DisableScrambling() {
	if s.ini != nil {
		s.ini.DisableScrambling()
	}
}

// VerifBuffered returns a copy of the not yet released write buffer.
func (s *VerifCryptoStream) VerifBuffered() []byte {
	if s.ini != nil {
		return append([]byte{}, s.ini.writeBuf...)
	}
	return append([]byte{}, s.base.writeBuf...)
}

// VerifState: scramble flag, end, the two cuts, writeOffset, len(writeBuf).
func (s *VerifCryptoStream) VerifState() (scramble bool, end int64, cuts [4]int64, writeOffset int64, buffered int) {
	if s.ini != nil {
		i := s.ini
		return i.scramble, int64(i.end), [4]int64{int64(i.cuts[0].start), int64(i.cuts[0].end), int64(i.cuts[1].start), int64(i.cuts[1].end)}, int64(i.writeOffset), len(i.writeBuf)
	}
	return false, 0, [4]int64{-1, -1, -1, -1}, int64(s.base.writeOffset), len(s.base.writeBuf)
}

// VerifCF is one CRYPTO frame handed to MarshalInitialPacketPayload.
type VerifCF struct {
	Offset int64
	Data   []byte
}

// VerifMarshalInitial runs uPacketPacker.MarshalInitialPacketPayload on a packer that has only the
// fields that method reads. It returns the payload and the datagram index afterwards.
func VerifMarshalInitial(fb QUICFrameBuilder, idx int, flightPlanned bool, frames []VerifCF) ([]byte, int, error) {
	p := &uPacketPacker{
		uSpec:              &QUICSpec{InitialPacketSpec: InitialPacketSpec{FrameBuilder: fb}},
		initialDatagramIdx: idx,
		flightPlanned:      flightPlanned,
	}
	var pl payload
	for _, f := range frames {
		pl.frames = append(pl.frames, ackhandler.Frame{Frame: &wire.CryptoFrame{Offset: protocol.ByteCount(f.Offset), Data: f.Data}})
		pl.length += protocol.ByteCount(len(f.Data))
	}
	b, err := p.MarshalInitialPacketPayload(pl, protocol.Version1)
	return b, p.initialDatagramIdx, err
}

// ---------------------------------------------------------------- planned flight + loss recovery glue

type verifNullSealer struct{}

func (verifNullSealer) Seal(dst, src []byte, _ protocol.PacketNumber, _ []byte) []byte {
	dst = append(dst, src...)
	return append(dst, make([]byte, 16)...)
}
func (verifNullSealer) EncryptHeader([]byte, *byte, []byte) {}
func (verifNullSealer) Overhead() int                      { return 16 }

type verifSealingManager struct{}

func (verifSealingManager) GetInitialSealer() (handshake.LongHeaderSealer, error) {
	return verifNullSealer{}, nil
}
func (verifSealingManager) GetHandshakeSealer() (handshake.LongHeaderSealer, error) {
	return nil, handshake.ErrKeysNotYetAvailable
}
func (verifSealingManager) Get0RTTSealer() (handshake.LongHeaderSealer, error) {
	return nil, handshake.ErrKeysNotYetAvailable
}
func (verifSealingManager) Get1RTTSealer() (handshake.ShortHeaderSealer, error) {
	return nil, handshake.ErrKeysNotYetAvailable
}

type verifPNManager struct{ next protocol.PacketNumber }

func (m *verifPNManager) PeekPacketNumber(protocol.EncryptionLevel) (protocol.PacketNumber, protocol.PacketNumberLen) {
	return m.next, protocol.PacketNumberLen2
}
func (m *verifPNManager) PopPacketNumber(protocol.EncryptionLevel) protocol.PacketNumber {
	pn := m.next
	m.next++
	return pn
}

type verifNoFrames struct{}

func (verifNoFrames) HasData() bool { return false }
func (verifNoFrames) Append(f []ackhandler.Frame, s []ackhandler.StreamFrame, _ protocol.ByteCount, _ monotime.Time, _ protocol.Version) ([]ackhandler.Frame, []ackhandler.StreamFrame, protocol.ByteCount) {
	return f, s, 0
}

type verifNoAcks struct{}

func (verifNoAcks) GetAckFrame(protocol.EncryptionLevel, monotime.Time, bool) *wire.AckFrame {
	return nil
}

// VerifFlightPacker is a real uPacketPacker (real packetPacker, real initialCryptoStream with the
// ClientHello written, real retransmissionQueue) whose environment is reduced to fakes that do
// nothing: a sealer that does not encrypt, a counting packet number manager, no other frames.
type VerifFlightPacker struct {
	up      *uPacketPacker
	ini     *initialCryptoStream
	maxSize protocol.ByteCount
	// the ackhandler.Frames registered for each packed Initial packet, as the packer handed them over
	sent [][]ackhandler.Frame
	live []bool // packed and not declared lost yet
}

func VerifNewFlightPacker(fb QUICFrameBuilder, clientHello []byte, packetSizes []int, maxSize int) *VerifFlightPacker {
	plans := make([]InitialPacketPlan, len(packetSizes))
	for i, s := range packetSizes {
		plans[i] = InitialPacketPlan{PacketSize: s}
	}
	return verifNewPacker(fb, clientHello, plans, maxSize)
}

// VerifNewDatagramPacker: the same real packer for the per-datagram path (nil / QUICFrames /
// QUICRandomFrames / QUICMultiDatagramFrames builder); InitialPackets given by their CryptoLength.
func VerifNewDatagramPacker(fb QUICFrameBuilder, clientHello []byte, cryptoLengths []int, maxSize int) *VerifFlightPacker {
	plans := make([]InitialPacketPlan, len(cryptoLengths))
	for i, c := range cryptoLengths {
		plans[i] = InitialPacketPlan{CryptoLength: c}
	}
	return verifNewPacker(fb, clientHello, plans, maxSize)
}

// HdrLen is the Initial long header length as PackCoalescedPacket / maybeGetCryptoPacket compute it.
func (f *VerifFlightPacker) HdrLen() int {
	return int(f.up.getLongHeader(protocol.EncryptionInitial, protocol.Version1).GetLength(protocol.Version1))
}

// Write appends more handshake data to the Initial CRYPTO stream.
func (f *VerifFlightPacker) Write(p []byte) { _, _ = f.ini.Write(p) }

func verifNewPacker(fb QUICFrameBuilder, clientHello []byte, plans []InitialPacketPlan, maxSize int) *VerifFlightPacker {
	ini := newInitialCryptoStream(true)
	ini.DisableScrambling()
	_, _ = ini.Write(clientHello)
	destID := protocol.ParseConnectionID([]byte{1, 2, 3, 4, 5, 6, 7, 8})
	pp := newPacketPacker(protocol.ConnectionID{}, func() protocol.ConnectionID { return destID }, ini, newCryptoStream(),
		&verifPNManager{next: 1}, newRetransmissionQueue(), verifSealingManager{}, verifNoFrames{}, verifNoAcks{}, nil, protocol.PerspectiveClient)
	spec := &QUICSpec{InitialPacketSpec: InitialPacketSpec{FrameBuilder: fb, InitialPackets: plans}}
	return &VerifFlightPacker{up: newUPacketPacker(pp, spec), ini: ini, maxSize: protocol.ByteCount(maxSize)}
}

// Budgets: MaxFrameBytes per datagram as planInitialFlight will compute them for a cryptoLen byte
// ClientHello, and the frame budget of a later (retransmission) Initial packet.
func (f *VerifFlightPacker) Budgets(cryptoLen int) (maxFrameBytes []int, retransmitBudget int) {
	s := verifNullSealer{}
	for _, b := range f.up.flightBudgets(cryptoLen, s, f.maxSize, protocol.Version1) {
		maxFrameBytes = append(maxFrameBytes, b.MaxFrameBytes)
	}
	hdrLen := f.up.getLongHeader(protocol.EncryptionInitial, protocol.Version1).GetLength(protocol.Version1)
	return maxFrameBytes, int(f.maxSize - 16 - hdrLen)
}

// Pack calls PackCoalescedPacket once. It returns the frame payload of the Initial packet (read back
// out of the serialized packet) and the CRYPTO frames the packer registered for loss recovery, read
// AFTER packing (offset, data) in registration order.
func (f *VerifFlightPacker) Pack() (payload []byte, registered []VerifCF, packed bool, err error) {
	pkt, err := f.up.PackCoalescedPacket(false, f.maxSize, monotime.Now(), protocol.Version1)
	return f.record(pkt, err)
}

// Probe calls PackPTOProbePacket for the Initial packet number space (addPingIfEmpty as the
// connection does); results as Pack.
func (f *VerifFlightPacker) Probe() (payload []byte, registered []VerifCF, packed bool, err error) {
	pkt, err := f.up.PackPTOProbePacket(protocol.EncryptionInitial, f.maxSize, true, monotime.Now(), protocol.Version1)
	return f.record(pkt, err)
}

func (f *VerifFlightPacker) record(pkt *coalescedPacket, err error) (payload []byte, registered []VerifCF, packed bool, _ error) {
	if err != nil || pkt == nil {
		f.sent = append(f.sent, nil) // `Lose` addresses Pack calls
		f.live = append(f.live, false)
		return nil, nil, false, err
	}
	defer pkt.buffer.Release()
	if len(pkt.longHdrPackets) != 1 {
		return nil, nil, false, fmt.Errorf("verif: %d long header packets", len(pkt.longHdrPackets))
	}
	data := pkt.buffer.Data
	hdr, _, _, perr := wire.ParsePacket(data)
	if perr != nil {
		return nil, nil, false, perr
	}
	ext, perr := hdr.ParseExtended(data)
	if perr != nil {
		return nil, nil, false, perr
	}
	hdrLen := ext.GetLength(protocol.Version1)
	end := hdrLen + hdr.Length - protocol.ByteCount(ext.PacketNumberLen) - 16
	if end < hdrLen || int(end) > len(data) {
		return nil, nil, false, fmt.Errorf("verif: bad packet length")
	}
	payload = append([]byte{}, data[hdrLen:end]...)
	lp := pkt.longHdrPackets[0]
	f.sent = append(f.sent, lp.frames)
	f.live = append(f.live, true)
	for _, fr := range lp.frames {
		if cf, ok := fr.Frame.(*wire.CryptoFrame); ok {
			registered = append(registered, VerifCF{Offset: int64(cf.Offset), Data: append([]byte{}, cf.Data...)})
		}
	}
	return payload, registered, true, nil
}

// Lose declares the k-th packed packet lost the way the sent packet handler (and a Retry) does: every
// registered frame is handed to its handler's OnLost.
func (f *VerifFlightPacker) Lose(k int) bool {
	if k < 0 || k >= len(f.sent) || !f.live[k] {
		return false
	}
	for _, fr := range f.sent[k] {
		fr.Handler.OnLost(fr.Frame)
	}
	f.live[k] = false
	return true
}

// Plan runs planInitialFlight now (PackCoalescedPacket would do it on its first call) and returns the
// planned frame payloads.
func (f *VerifFlightPacker) Plan() ([][]byte, error) {
	if err := f.up.planInitialFlight(verifNullSealer{}, f.maxSize, protocol.Version1); err != nil {
		return nil, err
	}
	out := make([][]byte, len(f.up.flightPayloads))
	for i, p := range f.up.flightPayloads {
		out[i] = append([]byte{}, p...)
	}
	return out, nil
}
