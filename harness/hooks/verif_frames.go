//go:build verif

package quic

// Exporters for the C09 correspondence driver (add-only, read-only accessors and thin
// wrappers around unexported functions; nothing here changes behaviour).

import (
	"github.com/refraction-networking/uquic/internal/ackhandler"
	"github.com/refraction-networking/uquic/internal/protocol"
	"github.com/refraction-networking/uquic/internal/wire"
)

// VerifValidateInitialFlight calls validateInitialFlight with budgets made of MaxFrameBytes only.
func VerifValidateInitialFlight(payloads [][]byte, maxFrameBytes []int, cryptoLen int) error {
	budgets := make([]InitialDatagramBudget, len(maxFrameBytes))
	for i, b := range maxFrameBytes {
		budgets[i] = InitialDatagramBudget{MaxFrameBytes: b}
	}
	return validateInitialFlight(payloads, budgets, cryptoLen)
}

// VerifFindSNIAndECH exposes findSNIAndECH.
func VerifFindSNIAndECH(b []byte) (sniPos, sniLen, echPos int, err error) { return findSNIAndECH(b) }

// VerifCryptoStream wraps either an initialCryptoStream or a plain cryptoStream.
type VerifCryptoStream struct {
	ini  *initialCryptoStream
	base *cryptoStream
}

func VerifNewInitialCryptoStream(isClient bool) *VerifCryptoStream {
	return &VerifCryptoStream{ini: newInitialCryptoStream(isClient)}
}

func VerifNewCryptoStream() *VerifCryptoStream { return &VerifCryptoStream{base: newCryptoStream()} }

func (s *VerifCryptoStream) Write(p []byte) (int, error) {
	if s.ini != nil {
		return s.ini.Write(p)
	}
	return s.base.Write(p)
}

func (s *VerifCryptoStream) HasData() bool {
	if s.ini != nil {
		return s.ini.HasData()
	}
	return s.base.HasData()
}

// PopCryptoFrame returns (offset, copy of data, true) or (0, nil, false) when the stream returned nil.
func (s *VerifCryptoStream) PopCryptoFrame(maxLen int64) (int64, []byte, bool) {
	var f *wire.CryptoFrame
	if s.ini != nil {
		f = s.ini.PopCryptoFrame(protocol.ByteCount(maxLen))
	} else {
		f = s.base.PopCryptoFrame(protocol.ByteCount(maxLen))
	}
	if f == nil {
		return 0, nil, false
	}
	return int64(f.Offset), append([]byte{}, f.Data...), true
}

func (s *VerifCryptoStream) PopAllCryptoData() ([]byte, bool) {
	if s.ini == nil {
		return nil, false
	}
	return append([]byte{}, s.ini.PopAllCryptoData()...), true
}

func (s *VerifCryptoStream) DisableScrambling() {
	if s.ini != nil {
		s.ini.DisableScrambling()
	}
}

// VerifBuffered returns a copy of the not yet released write buffer.
func (s *VerifCryptoStream) VerifBuffered() []byte {
	if s.ini != nil {
		return append([]byte{}, s.ini.writeBuf...)
	}
	return append([]byte{}, s.base.writeBuf...)
}

// VerifState: scramble flag, end, the two cuts, writeOffset, len(writeBuf).
func (s *VerifCryptoStream) VerifState() (scramble bool, end int64, cuts [4]int64, writeOffset int64, buffered int) {
	if s.ini != nil {
		i := s.ini
		return i.scramble, int64(i.end), [4]int64{int64(i.cuts[0].start), int64(i.cuts[0].end), int64(i.cuts[1].start), int64(i.cuts[1].end)}, int64(i.writeOffset), len(i.writeBuf)
	}
	return false, 0, [4]int64{-1, -1, -1, -1}, int64(s.base.writeOffset), len(s.base.writeBuf)
}

// VerifCF is one CRYPTO frame handed to MarshalInitialPacketPayload.
type VerifCF struct {
	Offset int64
	Data   []byte
}

// VerifMarshalInitial runs uPacketPacker.MarshalInitialPacketPayload on a packer that has only the
// fields that method reads. It returns the payload and the datagram index afterwards.
func VerifMarshalInitial(fb QUICFrameBuilder, idx int, flightPlanned bool, frames []VerifCF) ([]byte, int, error) {
	p := &uPacketPacker{
		uSpec:              &QUICSpec{InitialPacketSpec: InitialPacketSpec{FrameBuilder: fb}},
		initialDatagramIdx: idx,
		flightPlanned:      flightPlanned,
	}
	var pl payload
	for _, f := range frames {
		pl.frames = append(pl.frames, ackhandler.Frame{Frame: &wire.CryptoFrame{Offset: protocol.ByteCount(f.Offset), Data: f.Data}})
		pl.length += protocol.ByteCount(len(f.Data))
	}
	b, err := p.MarshalInitialPacketPayload(pl, protocol.Version1)
	return b, p.initialDatagramIdx, err
}
