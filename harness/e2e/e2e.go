//go:build verif

// Package e2e is the shared end-to-end runner (DESIGN.md §3.4): an in-tree server and a client
// (plain Transport or UTransport with a QUICSpec) connected through testutils/simnet with a
// scripted router, meant to run inside a testing/synctest bubble (virtual time, deterministic).
// It is SUPPORT for replay, search and model validation; nothing it finds is called a proof.
package e2e

import (
	"context"
	"crypto/x509"
	"fmt"
	"net"
	"sort"
	"sync"
	"time"

	quic "github.com/refraction-networking/uquic"
	"github.com/refraction-networking/uquic/internal/testdata"
	"github.com/refraction-networking/uquic/qlogwriter"
	"github.com/refraction-networking/uquic/testutils/simnet"
	tls "github.com/refraction-networking/utls"
)

var (
	ClientAddr = &net.UDPAddr{IP: net.ParseIP("1.0.0.1"), Port: 9001}
	ServerAddr = &net.UDPAddr{IP: net.ParseIP("1.0.0.2"), Port: 9002}
)

const ALPN = "verif-e2e"

// Dir of a datagram.
type Dir int

const (
	ToServer Dir = iota
	ToClient
)

func (d Dir) String() string {
	if d == ToServer {
		return "c2s"
	}
	return "s2c"
}

// Fault applies to the Index-th datagram (0-based) travelling in direction Dir.
type Fault struct {
	Dir   Dir
	Index int
	Kind  string // drop | dup | delay | flip | trunc
	Arg   int    // delay: ms; flip: bit index (mod len*8); trunc: new length (mod len)
}

// Datagram is a recorded datagram as it entered the router.
type Datagram struct {
	Dir   Dir
	Index int // per direction
	At    time.Duration
	Data  []byte
	Fate  string // delivered | drop | dup | delay | flip | trunc | injected
	From  string // sender / receiver address (several client endpoints: Setup.ExtraClientEndpoints)
	To    string
}

// Net is the scripted network.
type Net struct {
	mu     sync.Mutex
	start  time.Time
	inner  simnet.PerfectRouter
	faults map[[2]int]Fault
	count  [2]int
	Log    []Datagram
	// DropAll, when set, silently drops everything (dead path) from now on.
	DropAll [2]bool
	// Tap, if non-nil, sees every datagram before faults are applied and may return false to drop it.
	Tap func(d Dir, idx int, b []byte) bool
	// dropTo: destination addresses whose datagrams are silently dropped (a dead return path); see SetDropTo
	dropTo map[string]bool
}

// SetDropTo switches dropping of every datagram addressed to addr on or off.
func (n *Net) SetDropTo(addr net.Addr, on bool) {
	n.mu.Lock()
	defer n.mu.Unlock()
	if n.dropTo == nil {
		n.dropTo = map[string]bool{}
	}
	n.dropTo[addr.String()] = on
}

func (n *Net) dirOf(p simnet.Packet) Dir {
	if p.To.String() == ServerAddr.String() {
		return ToServer
	}
	return ToClient
}

// SendPacket implements simnet.Router.
func (n *Net) SendPacket(p simnet.Packet) error {
	n.mu.Lock()
	d := n.dirOf(p)
	idx := n.count[d]
	n.count[d]++
	f, hasFault := n.faults[[2]int{int(d), idx}]
	rec := Datagram{Dir: d, Index: idx, At: time.Since(n.start), Data: append([]byte(nil), p.Data...), Fate: "delivered",
		From: p.From.String(), To: p.To.String()}
	dropAll := n.DropAll[d] || n.dropTo[p.To.String()]
	tap := n.Tap
	if hasFault {
		rec.Fate = f.Kind
	}
	if dropAll {
		rec.Fate = "drop"
	}
	n.Log = append(n.Log, rec)
	n.mu.Unlock()
	if tap != nil && !tap(d, idx, p.Data) {
		return nil
	}
	if dropAll {
		return nil
	}
	if !hasFault {
		return n.inner.SendPacket(p)
	}
	switch f.Kind {
	case "drop":
		return nil
	case "dup":
		q := p
		q.Data = append([]byte(nil), p.Data...)
		if err := n.inner.SendPacket(p); err != nil {
			return err
		}
		return n.inner.SendPacket(q)
	case "delay":
		q := p
		q.Data = append([]byte(nil), p.Data...)
		time.AfterFunc(time.Duration(f.Arg)*time.Millisecond, func() { n.inner.SendPacket(q) })
		return nil
	case "flip":
		q := p
		q.Data = append([]byte(nil), p.Data...)
		if len(q.Data) > 0 {
			bit := f.Arg % (len(q.Data) * 8)
			q.Data[bit/8] ^= 1 << (bit % 8)
		}
		return n.inner.SendPacket(q)
	case "trunc":
		q := p
		q.Data = append([]byte(nil), p.Data...)
		if len(q.Data) > 1 {
			q.Data = q.Data[:1+f.Arg%(len(q.Data)-1)]
		}
		return n.inner.SendPacket(q)
	}
	return n.inner.SendPacket(p)
}

func (n *Net) AddNode(addr net.Addr, conn simnet.PacketReceiver) { n.inner.AddNode(addr, conn) }
func (n *Net) RemoveNode(addr net.Addr)                          { n.inner.RemoveNode(addr) }

// Inject delivers a forged datagram to one side as if it came from the other.
func (n *Net) Inject(d Dir, b []byte) {
	from, to := net.Addr(ClientAddr), net.Addr(ServerAddr)
	if d == ToClient {
		from, to = ServerAddr, ClientAddr
	}
	n.mu.Lock()
	n.Log = append(n.Log, Datagram{Dir: d, Index: -1, At: time.Since(n.start), Data: append([]byte(nil), b...), Fate: "injected"})
	n.mu.Unlock()
	n.inner.SendPacket(simnet.Packet{From: from, To: to, Data: append([]byte(nil), b...)})
}

// Datagrams returns a copy of the log for one direction.
func (n *Net) Datagrams(d Dir) []Datagram {
	n.mu.Lock()
	defer n.mu.Unlock()
	var out []Datagram
	for _, x := range n.Log {
		if x.Dir == d {
			out = append(out, x)
		}
	}
	return out
}

// Recorder collects qlog events of one connection (event type names + the events themselves).
type Recorder struct {
	mu     sync.Mutex
	Events []qlogwriter.Event
}

func (r *Recorder) RecordEvent(ev qlogwriter.Event) {
	r.mu.Lock()
	r.Events = append(r.Events, ev)
	r.mu.Unlock()
}
func (r *Recorder) Close() error { return nil }

// Snapshot returns a copy of the events recorded so far (safe while the connection is running).
func (r *Recorder) Snapshot() []qlogwriter.Event {
	r.mu.Lock()
	defer r.mu.Unlock()
	return append([]qlogwriter.Event(nil), r.Events...)
}

type trace struct{ r *Recorder }

func (t trace) AddProducer() qlogwriter.Recorder             { return t.r }
func (t trace) SupportsSchemas(string) bool                   { return true }

// Setup describes one scenario's endpoints.
type Setup struct {
	RTT        time.Duration
	Faults     []Fault
	ServerConf *quic.Config
	ClientConf *quic.Config
	ServerTLS  *tls.Config // default: testdata cert, ALPN
	ClientTLS  *tls.Config
	Spec       *quic.QUICSpec // nil: plain Transport
	Qlog       bool
	MTU        int // link MTU in bytes; 0 = unlimited (65535)
	// optional: adjust the transports before Listen / Dial (e.g. VerifySourceAddress, ConnectionIDLength)
	ServerTransport func(*quic.Transport)
	ClientTransport func(*quic.Transport)
	// ExtraClientEndpoints: further network endpoints of the client host (addresses ExtraClientAddr(0), (1), …) for
	// path probing / connection migration (Conn.AddPath with a second Transport); they appear in Env.ExtraPC
	ExtraClientEndpoints int
}

// ExtraClientAddr is the address of the i-th extra client endpoint.
func ExtraClientAddr(i int) *net.UDPAddr {
	return &net.UDPAddr{IP: net.ParseIP(fmt.Sprintf("1.0.1.%d", i+1)), Port: 9100 + i}
}

// Env is a running scenario.
type Env struct {
	Net       *Net
	sim       *simnet.Simnet
	ClientPC  *simnet.SimConn
	ServerPC  *simnet.SimConn
	ExtraPC   []*simnet.SimConn // Setup.ExtraClientEndpoints
	ServerTr  *quic.Transport
	Listener  *quic.Listener
	ClientTr  *quic.Transport
	ClientUTr *quic.UTransport
	ClientTLS *tls.Config
	ClientCfg *quic.Config
	ClientLog *Recorder
	ServerLog *Recorder
}

func ServerTLSConfig() *tls.Config {
	c := testdata.GetTLSConfig()
	c.NextProtos = []string{ALPN, "h3"} // the parrots' ClientHello specs offer h3
	return c
}

func ClientTLSConfig() *tls.Config {
	pool := x509.NewCertPool()
	testdata.AddRootCA(pool)
	// inside a synctest bubble the clock starts at 2000-01-01; the test certificate is valid 2020–2030
	return &tls.Config{ServerName: "localhost", RootCAs: pool, NextProtos: []string{ALPN},
		Time: func() time.Time { return time.Date(2025, 1, 1, 0, 0, 0, 0, time.UTC) }}
}

// Start builds the network, the server (listening) and the client transport. Must be called inside
// a synctest bubble; call Close before the bubble ends.
func Start(s Setup) (*Env, error) {
	nw := &Net{start: time.Now(), faults: map[[2]int]Fault{}}
	for _, f := range s.Faults {
		nw.faults[[2]int{int(f.Dir), f.Index}] = f
	}
	sim := &simnet.Simnet{Router: nw}
	rtt := s.RTT
	if rtt == 0 {
		rtt = 20 * time.Millisecond
	}
	// simnet links default to MTU 1400 and drop larger datagrams BEFORE the router sees them;
	// Setup.MTU = 0 means "no limit" so that every datagram an endpoint emits is logged.
	mtu := s.MTU
	if mtu == 0 {
		mtu = 65535
	}
	settings := simnet.NodeBiDiLinkSettings{Latency: rtt / 2,
		Downlink: simnet.LinkSettings{MTU: mtu}, Uplink: simnet.LinkSettings{MTU: mtu}}
	cpc := sim.NewEndpoint(ClientAddr, settings)
	spc := sim.NewEndpoint(ServerAddr, settings)
	var extra []*simnet.SimConn
	for i := 0; i < s.ExtraClientEndpoints; i++ {
		extra = append(extra, sim.NewEndpoint(ExtraClientAddr(i), settings))
	}
	if err := sim.Start(); err != nil {
		return nil, err
	}
	e := &Env{Net: nw, sim: sim, ClientPC: cpc, ServerPC: spc, ExtraPC: extra, ClientLog: &Recorder{}, ServerLog: &Recorder{}}
	sconf := s.ServerConf
	if sconf == nil {
		sconf = &quic.Config{}
	} else {
		sconf = sconf.Clone()
	}
	cconf := s.ClientConf
	if cconf == nil {
		cconf = &quic.Config{}
	} else {
		cconf = cconf.Clone()
	}
	if s.Qlog {
		sconf.Tracer = func(context.Context, bool, quic.ConnectionID) qlogwriter.Trace { return trace{e.ServerLog} }
		cconf.Tracer = func(context.Context, bool, quic.ConnectionID) qlogwriter.Trace { return trace{e.ClientLog} }
	}
	stls := s.ServerTLS
	if stls == nil {
		stls = ServerTLSConfig()
	}
	e.ClientTLS = s.ClientTLS
	if e.ClientTLS == nil {
		e.ClientTLS = ClientTLSConfig()
	}
	e.ClientCfg = cconf
	e.ServerTr = &quic.Transport{Conn: spc}
	if s.ServerTransport != nil {
		s.ServerTransport(e.ServerTr)
	}
	ln, err := e.ServerTr.Listen(stls, sconf)
	if err != nil {
		return nil, err
	}
	e.Listener = ln
	e.ClientTr = &quic.Transport{Conn: cpc}
	if s.ClientTransport != nil {
		s.ClientTransport(e.ClientTr)
	}
	if s.Spec != nil {
		e.ClientUTr = &quic.UTransport{Transport: e.ClientTr, QUICSpec: s.Spec}
	}
	return e, nil
}

// Dial dials with the configured client kind.
func (e *Env) Dial(ctx context.Context) (*quic.Conn, error) {
	if e.ClientUTr != nil {
		return e.ClientUTr.Dial(ctx, ServerAddr, e.ClientTLS.Clone(), e.ClientCfg)
	}
	return e.ClientTr.Dial(ctx, ServerAddr, e.ClientTLS.Clone(), e.ClientCfg)
}

// Close tears everything down (idempotent enough for tests).
func (e *Env) Close() {
	if e.Listener != nil {
		e.Listener.Close()
	}
	if e.ClientTr != nil {
		e.ClientTr.Close()
	}
	if e.ServerTr != nil {
		e.ServerTr.Close()
	}
	e.ClientPC.Close()
	e.ServerPC.Close()
	for _, pc := range e.ExtraPC {
		pc.Close()
	}
	e.sim.Close()
}

// EventNames lists the qlog event names recorded, in order.
func (r *Recorder) EventNames() []string {
	r.mu.Lock()
	defer r.mu.Unlock()
	out := make([]string, 0, len(r.Events))
	for _, ev := range r.Events {
		out = append(out, ev.Name())
	}
	return out
}

// SortedKeys is a small helper for canonical output.
func SortedKeys[V any](m map[string]V) []string {
	ks := make([]string, 0, len(m))
	for k := range m {
		ks = append(ks, k)
	}
	sort.Strings(ks)
	return ks
}

// ErrString canonicalises an error for the line protocol.
func ErrString(err error) string {
	if err == nil {
		return "nil"
	}
	return fmt.Sprintf("%T:%v", err, err)
}
