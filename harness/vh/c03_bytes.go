//go:build verif

package vh

import (
	"fmt"
	"os"
	"sort"
	"strconv"
	"strings"
	"time"
)

// Helpers shared by the C03 drivers (sorter, rstream): the per-case source byte string and the
// canonical text of byte strings. They mirror Uquic/Spec/ReasmMon.lean (srcByte, fmtBytes).

// SrcByte is byte i of the source string with the given salt; values are < 199 (never 0xEE).
func SrcByte(salt uint64, i int64) byte {
	return byte((((uint64(i) % 4294967296) * 2654435761) + salt*40503) / 128 % 199)
}

// SrcSeg returns bytes [off, off+n) of the source with salt+x.
func SrcSeg(salt, x uint64, off int64, n int) []byte {
	b := make([]byte, n)
	for j := range b {
		b[j] = SrcByte(salt+x, off+int64(j))
	}
	return b
}

// FmtBytes: "<len>:<hex>" up to 24 bytes, "<len>:#<fnv64>" above.
func FmtBytes(b []byte) string {
	if len(b) <= 24 {
		return fmt.Sprintf("%d:%x", len(b), b)
	}
	h := uint64(14695981039346656037)
	for _, x := range b {
		h = (h ^ uint64(x)) * 1099511628211
	}
	return fmt.Sprintf("%d:#%016x", len(b), h)
}

// FmtIDs prints a set of ids sorted, "-" when empty.
func FmtIDs(ids []int) string {
	if len(ids) == 0 {
		return "-"
	}
	s := append([]int(nil), ids...)
	sort.Ints(s)
	var sb strings.Builder
	for i, x := range s {
		if i > 0 {
			sb.WriteByte(',')
		}
		sb.WriteString(strconv.Itoa(x))
	}
	return sb.String()
}

// Poison overwrites a released receive buffer.
func Poison(b []byte) {
	b = b[:cap(b)]
	for i := range b {
		b[i] = 0xEE
	}
}

// Watchdog turns an operation that never returns (an endless loop in the code under test) into a
// crash of the driver with a message, instead of a check that hangs. Call the returned stop func
// when the operation is over.
func Watchdog(op string, d time.Duration) (stop func() bool) {
	t := time.AfterFunc(d, func() {
		fmt.Fprintf(os.Stderr, "\nverif: operation did not return within %v (endless loop in the code under test?): %s\n", d, op)
		os.Exit(3)
	})
	return t.Stop
}
