//go:build verif

// Package vh is the shared part of the correspondence harness: one PRNG, the
// .ops line writer, panic trapping, generation and replay modes.
//
// Environment: VH_MODE=gen|replay, VH_SEED, VH_CASES, VH_MAXOPS, VH_OUT, VH_IN, VH_TIER.
package vh

import (
	"bufio"
	"fmt"
	"os"
	"strconv"
	"strings"
	"testing"
)

// Rand is SplitMix64; every random choice of a run derives from one state.
type Rand struct{ s uint64 }

func NewRand(seed uint64) *Rand { return &Rand{s: seed} }

func (r *Rand) U64() uint64 {
	r.s += 0x9e3779b97f4a7c15
	z := r.s
	z = (z ^ (z >> 30)) * 0xbf58476d1ce4e5b9
	z = (z ^ (z >> 27)) * 0x94d049bb133111eb
	return z ^ (z >> 31)
}

// Intn returns a value in [0,n).
func (r *Rand) Intn(n int) int {
	if n <= 0 {
		return 0
	}
	return int(r.U64() % uint64(n))
}

// Range returns a value in [lo,hi].
func (r *Rand) Range(lo, hi int64) int64 {
	if hi <= lo {
		return lo
	}
	return lo + int64(r.U64()%uint64(hi-lo+1))
}

func (r *Rand) Bool() bool       { return r.U64()&1 == 1 }
func (r *Rand) Chance(p int) bool { return r.Intn(100) < p }
func (r *Rand) Bytes(n int) []byte {
	b := make([]byte, n)
	for i := range b {
		b[i] = byte(r.U64())
	}
	return b
}

// Pick chooses an index by weight.
func (r *Rand) Pick(weights ...int) int {
	t := 0
	for _, w := range weights {
		t += w
	}
	x := r.Intn(t)
	for i, w := range weights {
		if x < w {
			return i
		}
		x -= w
	}
	return len(weights) - 1
}

// Runner drives the real code for one case.
type Runner interface {
	// GenOp returns the next operation line (no result), or "" to end the case early.
	GenOp(r *Rand, i int) string
	// Exec runs one operation on the real code and returns the canonical observed result.
	Exec(op string) string
}

func EnvInt(name string, def int) int {
	if v := os.Getenv(name); v != "" {
		if n, err := strconv.Atoi(v); err == nil {
			return n
		}
	}
	return def
}

func EnvU64(name string, def uint64) uint64 {
	if v := os.Getenv(name); v != "" {
		if n, err := strconv.ParseUint(v, 10, 64); err == nil {
			return n
		}
		if n, err := strconv.ParseInt(v, 10, 64); err == nil {
			return uint64(n)
		}
	}
	return def
}

// SafeExec traps panics: a panic is an explicit outcome the model has to predict.
func SafeExec(rn Runner, op string) (res string) {
	defer func() {
		if e := recover(); e != nil {
			res = "PANIC"
			if cls := PanicClass(e); cls != "" {
				res = "PANIC:" + cls
			}
			if pf, ok := rn.(interface{ AfterPanic(op string) string }); ok {
				res = pf.AfterPanic(op)
			}
		}
	}()
	return rn.Exec(op)
}

// PanicClass maps panic values to a small enum (drivers may ignore it).
func PanicClass(e any) string { return "" }

// Main is called from each driver's TestDriver.
func Main(t *testing.T, name string, mk func(r *Rand) Runner) { MainEnum(t, name, mk, nil) }

// MainEnum is Main plus, in the thorough tier, a bounded-exhaustive phase: enum calls emit once
// per enumerated op sequence; each sequence runs on a fresh Runner. (Support for the tie and the
// search, never a substitute for a theorem.)
func MainEnum(t *testing.T, name string, mk func(r *Rand) Runner, enum func(emit func(ops []string))) {
	mode := os.Getenv("VH_MODE")
	out := os.Getenv("VH_OUT")
	if mode == "" || out == "" {
		t.Skip("VH_MODE/VH_OUT not set")
	}
	f, err := os.Create(out)
	if err != nil {
		t.Fatal(err)
	}
	defer f.Close()
	w := bufio.NewWriterSize(f, 1<<20)
	defer w.Flush()
	switch mode {
	case "gen":
		seed := EnvU64("VH_SEED", 1)
		cases := EnvInt("VH_CASES", 100)
		maxOps := EnvInt("VH_MAXOPS", 100)
		master := NewRand(seed ^ hashName(name))
		for c := 1; c <= cases; c++ {
			cs := master.U64()
			r := NewRand(cs)
			rn := mk(r)
			fmt.Fprintf(w, "# case %d seed %d driver %s\n", c, cs, name)
			n := 1 + r.Intn(maxOps)
			for i := 0; i < n; i++ {
				op := rn.GenOp(r, i)
				if op == "" {
					break
				}
				fmt.Fprintf(w, "%s => %s\n", op, SafeExec(rn, op))
			}
			if cl, ok := rn.(interface{ Close() }); ok {
				cl.Close()
			}
		}
		if enum != nil && os.Getenv("VH_TIER") == "thorough" {
			c := cases
			enum(func(ops []string) {
				c++
				rn := mk(NewRand(uint64(c)))
				fmt.Fprintf(w, "# case %d seed %d driver %s\n", c, c, name)
				for _, op := range ops {
					fmt.Fprintf(w, "%s => %s\n", op, SafeExec(rn, op))
				}
				if cl, ok := rn.(interface{ Close() }); ok {
					cl.Close()
				}
			})
		}
	case "replay":
		in, err := os.Open(os.Getenv("VH_IN"))
		if err != nil {
			t.Fatal(err)
		}
		defer in.Close()
		sc := bufio.NewScanner(in)
		sc.Buffer(make([]byte, 1<<20), 1<<28)
		var rn Runner
		var r *Rand
		for sc.Scan() {
			line := sc.Text()
			if strings.HasPrefix(line, "# case") {
				if cl, ok := rn.(interface{ Close() }); ok && rn != nil {
					cl.Close()
				}
				var cs uint64
				fs := strings.Fields(line)
				if len(fs) >= 5 {
					cs, _ = strconv.ParseUint(fs[4], 10, 64)
				}
				r = NewRand(cs)
				rn = mk(r)
				fmt.Fprintln(w, line)
				continue
			}
			if strings.HasPrefix(line, "#") || strings.TrimSpace(line) == "" {
				fmt.Fprintln(w, line)
				continue
			}
			if rn == nil {
				r = NewRand(0)
				rn = mk(r)
				fmt.Fprintf(w, "# case 1 seed 0 driver %s\n", name)
			}
			op := line
			if i := strings.Index(line, " => "); i >= 0 {
				op = line[:i]
			}
			fmt.Fprintf(w, "%s => %s\n", op, SafeExec(rn, op))
		}
		if cl, ok := rn.(interface{ Close() }); ok && rn != nil {
			cl.Close()
		}
	default:
		t.Fatalf("unknown VH_MODE %q", mode)
	}
}

func hashName(s string) uint64 {
	h := uint64(1469598103934665603)
	for i := 0; i < len(s); i++ {
		h ^= uint64(s[i])
		h *= 1099511628211
	}
	return h
}

// Atoi64 parses a decimal int64 (0 on error).
func Atoi64(s string) int64 { n, _ := strconv.ParseInt(s, 10, 64); return n }
